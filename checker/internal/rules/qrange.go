package rules

import (
	"fmt"
	"go/ast"
	"go/constant"
	"go/parser"
	"go/token"
	"go/types"
	"regexp"
	"sort"
	"strconv"
	"strings"
	"sync"

	"golang.org/x/tools/go/packages"

	"lvcheck/internal/core"
)

// QRANGE — interval abstract interpretation of the uint64 arithmetic of package ring, in units of the modulus.
//
// Every uint64 value is abstracted by an interval [lo, hi] whose bounds are affine forms a*q + b in the (unknown)
// modulus q, compared for every q in [17, 2^61) — 17 is the smallest NTT-friendly prime of the smallest accepted ring
// degree, 61 bits the largest size rlwe.CheckModuli accepts (THRESH). The reduction primitives are summarised by the
// range their own doc comment states ("The result is between 0 and 2*q-1"; none stated and "mod q" = [0, q-1]; CRed
// demands an argument in [0, 2q-1]). Operands are assumed fully reduced, except where the doc formula of the method
// subtracts an operand from a multiple of the modulus ("twomodulus - p2": p2 in [0, 2q-1]).
//
// Decided, for every exported SubRing method that forwards to a vector kernel (part A) and for the lazy transforms of
// ntt.go (part B, one abstract run per supported ring degree):
//   - no subtraction can wrap below zero,
//   - no sum can reach 2^64 for a 61-bit modulus (hi < 8q),
//   - CRed is only applied to a value in [0, 2q-1], Montgomery products stay below q*2^64,
//   - the stored result lies in the range the method documents ("with p3 in range [0, 3*modulus-2]": hi < 3q; a method
//     without the word Lazy in its name: hi <= q-1).
// Not decided: congruence (KALG, LANE do the algebra), the primitives themselves (TWIN), index coverage of the loops.

type qaff struct{ a, b int64 }

const qMinModulus = 17

func (x qaff) plus(y qaff) qaff  { return qaff{x.a + y.a, x.b + y.b} }
func (x qaff) minus(y qaff) qaff { return qaff{x.a - y.a, x.b - y.b} }
func (x qaff) scale(k int64) qaff {
	return qaff{x.a * k, x.b * k}
}
func (x qaff) String() string {
	switch {
	case x.a == 0:
		return strconv.FormatInt(x.b, 10)
	case x.b == 0:
		return fmt.Sprintf("%dq", x.a)
	case x.b > 0:
		return fmt.Sprintf("%dq+%d", x.a, x.b)
	}
	return fmt.Sprintf("%dq%d", x.a, x.b)
}

// qleq reports x <= y for every modulus q >= qMinModulus.
func qleq(x, y qaff) bool {
	d := y.minus(x)
	if d.a == 0 {
		return d.b >= 0
	}
	if d.a > 0 {
		return d.a*qMinModulus+d.b >= 0
	}
	return false
}

func qupper(x, y qaff) qaff {
	if qleq(x, y) {
		return y
	}
	if qleq(y, x) {
		return x
	}
	r := x
	if y.a > r.a {
		r.a = y.a
	}
	if y.b > r.b {
		r.b = y.b
	}
	return r
}

func qlower(x, y qaff) qaff {
	if qleq(x, y) {
		return x
	}
	if qleq(y, x) {
		return y
	}
	r := x
	if y.a < r.a {
		r.a = y.a
	}
	if y.b < r.b {
		r.b = y.b
	}
	return r
}

// qitv is an interval of uint64 values; top is the whole of uint64, bot the empty set.
type qitv struct {
	lo, hi   qaff
	top, bot bool
}

var qTop = qitv{top: true}
var qBot = qitv{bot: true}

func qconst(n int64) qitv { return qitv{lo: qaff{0, n}, hi: qaff{0, n}} }
func qmul(k int64) qitv   { return qitv{lo: qaff{k, 0}, hi: qaff{k, 0}} }
func qbelow(k int64) qitv { return qitv{lo: qaff{0, 0}, hi: qaff{k, -1}} } // [0, k*q-1]

func (x qitv) String() string {
	if x.top {
		return "[0, 2^64-1]"
	}
	if x.bot {
		return "[]"
	}
	return "[" + x.lo.String() + ", " + x.hi.String() + "]"
}

func (x qitv) exact() (qaff, bool) {
	if x.top || x.bot {
		return qaff{}, false
	}
	return x.lo, x.lo == x.hi
}

func (x qitv) join(y qitv) qitv {
	if x.bot {
		return y
	}
	if y.bot {
		return x
	}
	if x.top || y.top {
		return qTop
	}
	return qitv{lo: qlower(x.lo, y.lo), hi: qupper(x.hi, y.hi)}
}

func (x qitv) eq(y qitv) bool { return x == y }

// ival is a concrete-or-unknown integer (loop counters, ring degree).
type ival struct {
	known bool
	v     int64
}

type qProblem struct {
	pos  token.Pos
	kind string
	msg  string
}

type qStore struct {
	sym string
	v   qitv
	pos token.Pos
}

// qInterp is the abstract interpreter; one instance per analysed entry point.
type qInterp struct {
	c     *core.Ctx
	info  *types.Info
	decls map[*types.Func]*ast.FuncDecl
	probs []qProblem
	seen  map[string]bool
	// cells: abstract contents of slices, keyed by symbol ("p2") or by symbol and constant index ("p2[3]", part A)
	cells  map[string]qitv
	stores []qStore
	// part B: inside a parallel loop nest reads see the snapshot taken at its entry and writes go to pending
	snapshot  map[string]qitv
	pending   map[string]qitv
	written   map[string]qitv  // cells written in the current layer, by the text of the index expression
	perIndex  bool             // part A: distinguish the constant indexes of a window
	exact     bool             // part B, small N: every loop and every index concrete, one abstract cell per coefficient
	slen      map[string]int64 // exact mode: length of the tracked slices
	depth     int
	steps     int
	undecided int
	// dependency tracking (NTTSCHED, exact mode): hist[cell] is the sequence of the sets of cells (coefficients and
	// table entries) each value stored into the cell was computed from
	trackDeps  bool
	// ring level (MONOSPEC): the ring degree answered for r.N(), signs in the dependencies (a value subtracted from a
	// multiple of the modulus is the negation of what it was computed from), dependencies resolved through the cells
	// written during the run (so that what is stored in the output is expressed in the input)
	ringN     int64
	trackSign bool
	resolved  map[string]string
	hist       map[string][]string
	histPos    map[string][]token.Pos
	lastRetDep []string
}

type qFrame struct {
	u        map[types.Object]qitv
	n        map[types.Object]ival
	bl       map[types.Object]int // 1 true, 2 false
	sym      map[types.Object]string
	base     map[types.Object]ival   // offset of a view into the slice it views
	leq      map[string]bool         // relational facts "A<=B" (expression texts) established by the enclosing conditions
	dep      map[types.Object]string // trackDeps: the cells a uint64 local was computed from (sorted, comma separated)
	fn       map[types.Object]*types.Func // function-valued locals that hold one known function on this path
	vlen     map[types.Object]ival        // length of a slice view (x := p[a:b])
	rec      map[types.Object]map[string]ival   // a struct of integers held in a local (the row of a table)
	tab      map[types.Object][]map[string]ival // a slice of such structs built by the function (a table of layers)
	ret      []qitv
	retDep   []string
	returned bool
	jumped   bool // left the loop body through `continue`: the frame is dead until the body ends
}

func newQFrame() *qFrame {
	return &qFrame{u: map[types.Object]qitv{}, n: map[types.Object]ival{}, bl: map[types.Object]int{}, sym: map[types.Object]string{}, base: map[types.Object]ival{}, leq: map[string]bool{}, dep: map[types.Object]string{}, fn: map[types.Object]*types.Func{}, vlen: map[types.Object]ival{}, rec: map[types.Object]map[string]ival{}, tab: map[types.Object][]map[string]ival{}}
}

func (f *qFrame) clone() *qFrame {
	g := newQFrame()
	for k, v := range f.u {
		g.u[k] = v
	}
	for k, v := range f.n {
		g.n[k] = v
	}
	for k, v := range f.bl {
		g.bl[k] = v
	}
	for k, v := range f.sym {
		g.sym[k] = v
	}
	for k, v := range f.base {
		g.base[k] = v
	}
	for k := range f.leq {
		g.leq[k] = true
	}
	for k, v := range f.dep {
		g.dep[k] = v
	}
	for k, v := range f.fn {
		g.fn[k] = v
	}
	for k, v := range f.vlen {
		g.vlen[k] = v
	}
	for k, v := range f.rec {
		g.rec[k] = v
	}
	for k, v := range f.tab {
		g.tab[k] = v
	}
	g.ret = append(g.ret, f.ret...)
	g.retDep = append(g.retDep, f.retDep...)
	g.returned = f.returned
	g.jumped = f.jumped
	return g
}

// loopBody runs the body of a loop once; a path that left it through `continue` rejoins at its end.
func (q *qInterp) loopBody(f *qFrame, list []ast.Stmt) *qFrame {
	g := q.block(f, list)
	if g.jumped {
		g.jumped = false
		g.returned = false
	}
	return g
}

// depUnion merges two dependency sets (sorted, comma separated cell keys).
func depUnion(a, b string) string {
	if a == "" || a == b {
		return b
	}
	if b == "" {
		return a
	}
	set := map[string]bool{}
	for _, k := range strings.Split(a, ",") {
		set[k] = true
	}
	for _, k := range strings.Split(b, ",") {
		set[k] = true
	}
	ks := make([]string, 0, len(set))
	for k := range set {
		ks = append(ks, k)
	}
	sort.Strings(ks)
	return strings.Join(ks, ",")
}

func joinRetDeps(a, b []string) []string {
	if a == nil {
		return b
	}
	if b == nil {
		return a
	}
	r := make([]string, len(a))
	for i := range a {
		r[i] = a[i]
		if i < len(b) {
			r[i] = depUnion(a[i], b[i])
		}
	}
	return r
}

// depNegate flips the sign of every entry of a dependency set ("-p1#3" <-> "p1#3").
func depNegate(d string) string {
	if d == "" {
		return ""
	}
	parts := strings.Split(d, ",")
	for i, p := range parts {
		if strings.HasPrefix(p, "-") {
			parts[i] = p[1:]
		} else {
			parts[i] = "-" + p
		}
	}
	sort.Strings(parts)
	return strings.Join(parts, ",")
}

// depOf returns the cells the value of a uint64 expression is computed from: a coefficient or table entry read by
// index is itself, a local is what it was assigned, an operation or a call is the union over its operands.
func (q *qInterp) depOf(f *qFrame, x ast.Expr) string {
	if !q.trackDeps {
		return ""
	}
	x = unparen(x)
	switch v := x.(type) {
	case *ast.Ident:
		o := q.info.Uses[v]
		if o == nil {
			o = q.info.Defs[v]
		}
		return f.dep[o]
	case *ast.IndexExpr:
		if isUint64(q.info.TypeOf(v)) {
			if sym, key := q.cellKey(f, v); sym != "" {
				if q.resolved != nil {
					if d, ok := q.resolved[key]; ok {
						return d
					}
				}
				return key
			}
		}
		return ""
	case *ast.BinaryExpr:
		if q.trackSign && v.Op == token.SUB {
			// q - x, 2q - x: the negation of x modulo q
			if e, ok := q.eval(f, v.X).exact(); ok && e.a > 0 && e.b == 0 {
				return depNegate(q.depOf(f, v.Y))
			}
		}
		return depUnion(q.depOf(f, v.X), q.depOf(f, v.Y))
	case *ast.UnaryExpr:
		return q.depOf(f, v.X)
	case *ast.CallExpr:
		d := ""
		for _, a := range v.Args {
			if isUint64(q.info.TypeOf(a)) {
				d = depUnion(d, q.depOf(f, a))
			}
		}
		return d
	}
	return ""
}

// noteStore records the dependencies of a value that has just been assigned to a local or stored into a cell.
func (q *qInterp) noteStore(f *qFrame, lhs ast.Expr, dep string, pos token.Pos) {
	if !q.trackDeps {
		return
	}
	switch l := unparen(lhs).(type) {
	case *ast.Ident:
		o := q.info.Defs[l]
		if o == nil {
			o = q.info.Uses[l]
		}
		if o != nil && isUint64(o.Type()) {
			f.dep[o] = dep
		}
	case *ast.IndexExpr:
		if isUint64(q.info.TypeOf(l)) {
			if sym, key := q.cellKey(f, l); sym != "" {
				q.hist[key] = append(q.hist[key], dep)
				q.histPos[key] = append(q.histPos[key], pos)
				if q.resolved != nil {
					q.resolved[key] = dep
				}
			}
		}
	}
}

// joinFrames merges the states of two branches into f.
func joinFrames(a, b *qFrame) *qFrame {
	if a.returned && !b.returned {
		b.ret = joinRets(a.ret, b.ret)
		b.retDep = joinRetDeps(a.retDep, b.retDep)
		return b
	}
	if b.returned && !a.returned {
		a.ret = joinRets(a.ret, b.ret)
		a.retDep = joinRetDeps(a.retDep, b.retDep)
		return a
	}
	r := newQFrame()
	for k, v := range a.dep {
		r.dep[k] = v
	}
	for k, v := range b.dep {
		r.dep[k] = depUnion(r.dep[k], v)
	}
	r.retDep = joinRetDeps(a.retDep, b.retDep)
	for k, v := range a.fn {
		if b.fn[k] == v {
			r.fn[k] = v
		}
	}
	for k, v := range a.vlen {
		if w, ok := b.vlen[k]; ok && w == v {
			r.vlen[k] = v
		}
	}
	for k, v := range a.rec {
		if _, ok := b.rec[k]; ok {
			r.rec[k] = v // rows are immutable once bound
		}
	}
	for k, v := range a.tab {
		if w, ok := b.tab[k]; ok && len(w) == len(v) {
			r.tab[k] = v
		}
	}
	for k, v := range a.u {
		if w, ok := b.u[k]; ok {
			r.u[k] = v.join(w)
		} else {
			r.u[k] = v
		}
	}
	for k, v := range b.u {
		if _, ok := a.u[k]; !ok {
			r.u[k] = v
		}
	}
	for k, v := range a.n {
		if w, ok := b.n[k]; ok && w == v {
			r.n[k] = v
		} else {
			r.n[k] = ival{}
		}
	}
	for k := range b.n {
		if _, ok := a.n[k]; !ok {
			r.n[k] = ival{}
		}
	}
	for k, v := range a.bl {
		if b.bl[k] == v {
			r.bl[k] = v
		}
	}
	for k, v := range a.sym {
		r.sym[k] = v
	}
	for k, v := range b.sym {
		r.sym[k] = v
	}
	for k, v := range a.base {
		if w, ok := b.base[k]; ok && w == v {
			r.base[k] = v
		} else {
			r.base[k] = ival{}
		}
	}
	for k, v := range b.base {
		if _, ok := a.base[k]; !ok {
			r.base[k] = v
		}
	}
	for k := range a.leq {
		if b.leq[k] {
			r.leq[k] = true
		}
	}
	r.ret = joinRets(a.ret, b.ret)
	r.returned = a.returned && b.returned
	r.jumped = r.returned && (a.jumped || b.jumped)
	return r
}

func joinRets(a, b []qitv) []qitv {
	if a == nil {
		return b
	}
	if b == nil {
		return a
	}
	if len(a) != len(b) {
		return a
	}
	r := make([]qitv, len(a))
	for i := range a {
		r[i] = a[i].join(b[i])
	}
	return r
}

func (q *qInterp) problem(pos token.Pos, kind, f string, a ...interface{}) {
	msg := fmt.Sprintf(f, a...)
	k := kind + "|" + q.c.Rel(pos) + "|" + msg
	if q.seen == nil {
		q.seen = map[string]bool{}
	}
	if q.seen[k] {
		return
	}
	q.seen[k] = true
	q.probs = append(q.probs, qProblem{pos, kind, msg})
}

func isUint64(t types.Type) bool {
	if t == nil {
		return false
	}
	b, ok := t.Underlying().(*types.Basic)
	return ok && b.Kind() == types.Uint64
}

func isIntLike(t types.Type) bool {
	if t == nil {
		return false
	}
	b, ok := t.Underlying().(*types.Basic)
	return ok && b.Info()&types.IsInteger != 0 && b.Kind() != types.Uint64
}

const qStepLimit = 40000000

// qExactMaxLogN: up to this ring degree the transforms are executed with every loop and index concrete (one abstract
// cell per coefficient, no assumption on the loops); above it layer by layer.
const qExactMaxLogN = 9

// qExactMaxLogNThorough: the same bound in the thorough tier.
const qExactMaxLogNThorough = 17

var qPrimRange = regexp.MustCompile(`between 0 and (\d+)\s*\*\s*q\s*-\s*(\d+)`)

// primSummary returns the output range of a reduction primitive of package ring, read from its doc comment.
func (q *qInterp) primSummary(fn *types.Func) (qitv, bool) {
	if fn == nil || fn.Pkg() == nil || !strings.HasSuffix(fn.Pkg().Path(), "/ring") {
		return qTop, false
	}
	switch fn.Name() {
	case "MRed", "MRedLazy", "BRed", "BRedLazy", "BRedAdd", "BRedAddLazy", "MForm", "MFormLazy", "IMForm", "IMFormLazy", "CRed":
	default:
		return qTop, false
	}
	doc := ""
	if fd := q.decls[fn]; fd != nil {
		doc = docText(fd)
	} else if pk := q.c.Pkg("ring"); pk != nil {
		for _, f := range pk.Syntax {
			for _, d := range f.Decls {
				if fd, ok := d.(*ast.FuncDecl); ok && fd.Recv == nil && fd.Name.Name == fn.Name() {
					doc = docText(fd)
				}
			}
		}
	}
	if m := qPrimRange.FindStringSubmatch(doc); m != nil && fn.Name() != "CRed" {
		k, _ := strconv.ParseInt(m[1], 10, 64)
		c, _ := strconv.ParseInt(m[2], 10, 64)
		return qitv{lo: qaff{0, 0}, hi: qaff{k, -c}}, true
	}
	if strings.HasSuffix(fn.Name(), "Lazy") {
		// a lazy primitive that no longer states its range: assume the widest the callers tolerate
		return qbelow(2), true
	}
	return qbelow(1), true
}

// evalInt evaluates an integer (non-uint64) expression concretely where possible.
func (q *qInterp) evalInt(f *qFrame, x ast.Expr) ival {
	x = unparen(x)
	if tv, ok := q.info.Types[x]; ok && tv.Value != nil {
		if n, ok := constant.Int64Val(constant.ToInt(tv.Value)); ok {
			return ival{true, n}
		}
	}
	switch v := x.(type) {
	case *ast.Ident:
		if o := q.info.Uses[v]; o != nil {
			if iv, ok := f.n[o]; ok {
				return iv
			}
		}
	case *ast.SelectorExpr:
		// a field of a row of integers (`l.m` with l the value variable of a range over a table)
		if id, ok := unparen(v.X).(*ast.Ident); ok {
			if r, ok := f.rec[q.info.Uses[id]]; ok {
				if iv, ok := r[v.Sel.Name]; ok {
					return iv
				}
			}
		}
	case *ast.BinaryExpr:
		a, b := q.evalInt(f, v.X), q.evalInt(f, v.Y)
		if !a.known || !b.known {
			return ival{}
		}
		switch v.Op {
		case token.ADD:
			return ival{true, a.v + b.v}
		case token.SUB:
			return ival{true, a.v - b.v}
		case token.MUL:
			return ival{true, a.v * b.v}
		case token.QUO:
			if b.v != 0 {
				return ival{true, a.v / b.v}
			}
		case token.REM:
			if b.v != 0 {
				return ival{true, a.v % b.v}
			}
		case token.SHL:
			if b.v >= 0 && b.v < 62 {
				return ival{true, a.v << uint(b.v)}
			}
		case token.SHR:
			if b.v >= 0 && b.v < 63 {
				return ival{true, a.v >> uint(b.v)}
			}
		case token.AND:
			return ival{true, a.v & b.v}
		case token.OR:
			return ival{true, a.v | b.v}
		}
	case *ast.CallExpr:
		if q.ringN > 0 && len(v.Args) == 0 {
			if se, ok := unparen(v.Fun).(*ast.SelectorExpr); ok && se.Sel.Name == "N" {
				return ival{true, q.ringN}
			}
		}
		if isBuiltinCall(q.info, v, "len") && len(v.Args) == 1 && q.slen != nil {
			if n := q.sliceLen(f, v.Args[0]); n.known {
				return n
			}
		}
		if tv, ok := q.info.Types[v.Fun]; ok && tv.IsType() && len(v.Args) == 1 {
			if isUint64(q.info.TypeOf(v.Args[0])) {
				if e, ok := q.eval(f, v.Args[0]).exact(); ok && e.a == 0 {
					return ival{true, e.b}
				}
				return ival{}
			}
			return q.evalInt(f, v.Args[0])
		}
		if fn := calleeFunc(q.info, v); fn != nil && fn.Pkg() != nil && fn.Pkg().Path() == "math/bits" && len(v.Args) == 1 {
			a := q.evalIntAny(f, v.Args[0])
			if a.known && a.v >= 0 {
				switch fn.Name() {
				case "Len64", "Len", "Len32":
					n := int64(0)
					for t := a.v; t > 0; t >>= 1 {
						n++
					}
					return ival{true, n}
				case "TrailingZeros64", "TrailingZeros", "TrailingZeros32":
					if a.v == 0 {
						return ival{}
					}
					n := int64(0)
					for t := a.v; t&1 == 0; t >>= 1 {
						n++
					}
					return ival{true, n}
				case "OnesCount64", "OnesCount", "OnesCount32":
					n := int64(0)
					for t := a.v; t > 0; t >>= 1 {
						n += t & 1
					}
					return ival{true, n}
				}
			}
		}
	}
	return ival{}
}

// evalIntAny evaluates an expression of any integer type (a uint64 conversion of a counter included).
func (q *qInterp) evalIntAny(f *qFrame, x ast.Expr) ival {
	x = unparen(x)
	if c, ok := x.(*ast.CallExpr); ok {
		if tv, ok := q.info.Types[c.Fun]; ok && tv.IsType() && len(c.Args) == 1 {
			return q.evalIntAny(f, c.Args[0])
		}
	}
	return q.evalInt(f, x)
}

// evalBool: 1 true, 2 false, 0 unknown.
func (q *qInterp) evalBool(f *qFrame, x ast.Expr) int {
	x = unparen(x)
	if tv, ok := q.info.Types[x]; ok && tv.Value != nil && tv.Value.Kind() == constant.Bool {
		if constant.BoolVal(tv.Value) {
			return 1
		}
		return 2
	}
	switch v := x.(type) {
	case *ast.Ident:
		if o := q.info.Uses[v]; o != nil {
			return f.bl[o]
		}
	case *ast.UnaryExpr:
		if v.Op == token.NOT {
			switch q.evalBool(f, v.X) {
			case 1:
				return 2
			case 2:
				return 1
			}
		}
	case *ast.BinaryExpr:
		switch v.Op {
		case token.LAND:
			a, b := q.evalBool(f, v.X), q.evalBool(f, v.Y)
			if a == 2 || b == 2 {
				return 2
			}
			if a == 1 && b == 1 {
				return 1
			}
			return 0
		case token.LOR:
			a, b := q.evalBool(f, v.X), q.evalBool(f, v.Y)
			if a == 1 || b == 1 {
				return 1
			}
			if a == 2 && b == 2 {
				return 2
			}
			return 0
		case token.LSS, token.LEQ, token.GTR, token.GEQ, token.EQL, token.NEQ:
			if isUint64(q.info.TypeOf(v.X)) {
				a, b := q.eval(f, v.X), q.eval(f, v.Y)
				if a.top || b.top || a.bot || b.bot {
					return 0
				}
				switch v.Op {
				case token.GEQ:
					if qleq(b.hi, a.lo) {
						return 1
					}
					if qleq(a.hi.plus(qaff{0, 1}), b.lo) {
						return 2
					}
				case token.LSS:
					if qleq(a.hi.plus(qaff{0, 1}), b.lo) {
						return 1
					}
					if qleq(b.hi, a.lo) {
						return 2
					}
				case token.GTR:
					if qleq(b.hi.plus(qaff{0, 1}), a.lo) {
						return 1
					}
					if qleq(a.hi, b.lo) {
						return 2
					}
				case token.LEQ:
					if qleq(a.hi, b.lo) {
						return 1
					}
					if qleq(b.hi.plus(qaff{0, 1}), a.lo) {
						return 2
					}
				}
				return 0
			}
			a, b := q.evalIntAny(f, v.X), q.evalIntAny(f, v.Y)
			if !a.known || !b.known {
				return 0
			}
			r := false
			switch v.Op {
			case token.LSS:
				r = a.v < b.v
			case token.LEQ:
				r = a.v <= b.v
			case token.GTR:
				r = a.v > b.v
			case token.GEQ:
				r = a.v >= b.v
			case token.EQL:
				r = a.v == b.v
			case token.NEQ:
				r = a.v != b.v
			}
			if r {
				return 1
			}
			return 2
		}
	}
	return 0
}

// cellKey returns the abstract cell an index expression denotes ("" when its base is not a tracked slice): the symbol
// of the slice and the key of the cell (the symbol itself when the cell is not individually known).
func (q *qInterp) cellKey(f *qFrame, ix *ast.IndexExpr) (string, string) {
	base := unparen(ix.X)
	id, ok := base.(*ast.Ident)
	if !ok {
		return "", ""
	}
	o := q.info.Uses[id]
	if o == nil {
		o = q.info.Defs[id]
	}
	sym, ok := f.sym[o]
	if !ok {
		return "", ""
	}
	if q.perIndex {
		if tv, ok := q.info.Types[ix.Index]; ok && tv.Value != nil {
			return sym, sym + "[" + tv.Value.ExactString() + "]"
		}
		return sym, sym
	}
	if q.snapshot != nil {
		// inside a layer a cell is named by its view and the index: the value of the index when it is concrete (a lane
		// of a window, written out or as the counter of a small loop), its text otherwise
		if i := q.evalIntAny(f, ix.Index); i.known {
			return sym, fmt.Sprintf("%s@%s[%d]", sym, id.Name, i.v)
		}
		return sym, sym + "@" + id.Name + "[" + exprString(ix.Index) + "]"
	}
	// outside a layer: a concretely known coefficient
	b, okb := f.base[o]
	if !okb {
		b = ival{true, 0}
	}
	if i := q.evalIntAny(f, ix.Index); i.known && b.known {
		return sym, fmt.Sprintf("%s#%d", sym, b.v+i.v)
	}
	return sym, sym
}

func (q *qInterp) readCell(sym, key string) qitv {
	if q.snapshot != nil {
		if v, ok := q.written[key]; ok {
			return v // the same cell, written earlier in this iteration of the layer
		}
		if v, ok := q.snapshot[sym]; ok {
			return v
		}
		return qTop
	}
	if v, ok := q.cells[key]; ok {
		return v
	}
	if v, ok := q.cells[sym]; ok {
		return v
	}
	return qTop
}

func (q *qInterp) writeCell(sym, key string, v qitv, pos token.Pos) {
	q.stores = append(q.stores, qStore{sym, v, pos})
	if q.pending != nil {
		q.written[key] = v
		if old, ok := q.pending[sym]; ok {
			q.pending[sym] = old.join(v)
		} else {
			q.pending[sym] = v
		}
		return
	}
	if key != sym {
		q.cells[key] = v // an individually known cell: strong update
		return
	}
	if q.exact {
		q.problem(pos, "index", "store into %s at an index the analysis could not determine", sym)
	}
	if old, ok := q.cells[sym]; ok {
		q.cells[sym] = old.join(v)
	} else {
		q.cells[sym] = v
	}
}

func (q *qInterp) checkOverflow(x ast.Expr, v qitv) qitv {
	if v.top || v.bot {
		return v
	}
	if !qleq(v.hi, qaff{8, -1}) {
		q.problem(x.Pos(), "overflow", "%s may reach %s, which exceeds 2^64-1 for a 61-bit modulus (8q <= 2^64)", exprString(x), v.hi)
		return qTop
	}
	return v
}

// eval evaluates a uint64 expression.
func (q *qInterp) eval(f *qFrame, x ast.Expr) qitv {
	x = unparen(x)
	if tv, ok := q.info.Types[x]; ok && tv.Value != nil {
		if n, ok := constant.Int64Val(constant.ToInt(tv.Value)); ok && n >= 0 {
			return qconst(n)
		}
		return qTop
	}
	switch v := x.(type) {
	case *ast.Ident:
		o := q.info.Uses[v]
		if o == nil {
			o = q.info.Defs[v]
		}
		if r, ok := f.u[o]; ok {
			return r
		}
		return qTop
	case *ast.IndexExpr:
		sym, key := q.cellKey(f, v)
		if sym != "" {
			return q.readCell(sym, key)
		}
		return qTop
	case *ast.SelectorExpr:
		if v.Sel.Name == "Modulus" && isUint64(q.info.TypeOf(v)) {
			return qmul(1)
		}
		return qTop
	case *ast.BinaryExpr:
		switch v.Op {
		case token.ADD:
			a, b := q.eval(f, v.X), q.eval(f, v.Y)
			if a.top || b.top || a.bot || b.bot {
				return qTop
			}
			return q.checkOverflow(x, qitv{lo: a.lo.plus(b.lo), hi: a.hi.plus(b.hi)})
		case token.SUB:
			a, b := q.eval(f, v.X), q.eval(f, v.Y)
			if a.top || b.top || a.bot || b.bot {
				q.undecided++
				return qTop
			}
			if f.leq[exprString(v.Y)+"<="+exprString(v.X)] {
				// the enclosing condition established Y <= X
				hi := a.hi.minus(b.lo)
				return qitv{lo: qaff{0, 0}, hi: hi}
			}
			if !qleq(b.hi, a.lo) {
				q.problem(x.Pos(), "underflow", "%s: the left operand can be as small as %s while the right operand can be as large as %s, so the unsigned subtraction can wrap around", exprString(x), a.lo, b.hi)
				return qTop
			}
			res := qitv{lo: a.lo.minus(b.hi), hi: a.hi.minus(b.lo)}
			// (A + B) - Y with A <= Y (A < Y) established: at most B (B - 1)
			if sum, ok := unparen(v.X).(*ast.BinaryExpr); ok && sum.Op == token.ADD {
				ys := exprString(v.Y)
				for _, pr := range [][2]ast.Expr{{sum.X, sum.Y}, {sum.Y, sum.X}} {
					as := exprString(pr[0])
					if f.leq[as+"<="+ys] {
						if bb := q.eval(f, pr[1]); !bb.top && !bb.bot {
							hi := bb.hi
							if f.leq[as+"<"+ys] {
								hi = hi.minus(qaff{0, 1})
							}
							if qleq(hi, res.hi) {
								res.hi = hi
							}
						}
					}
				}
			}
			return res
		case token.MUL:
			a, b := q.eval(f, v.X), q.eval(f, v.Y)
			if ea, ok := a.exact(); ok && ea.a == 0 && !b.top && !b.bot {
				return q.checkOverflow(x, qitv{lo: b.lo.scale(ea.b), hi: b.hi.scale(ea.b)})
			}
			if eb, ok := b.exact(); ok && eb.a == 0 && !a.top && !a.bot {
				return q.checkOverflow(x, qitv{lo: a.lo.scale(eb.b), hi: a.hi.scale(eb.b)})
			}
			return qTop
		case token.SHL:
			a := q.eval(f, v.X)
			k := q.evalIntAny(f, v.Y)
			if k.known && k.v >= 0 && k.v < 8 && !a.top && !a.bot {
				return q.checkOverflow(x, qitv{lo: a.lo.scale(1 << uint(k.v)), hi: a.hi.scale(1 << uint(k.v))})
			}
			return qTop
		case token.REM:
			if b := q.eval(f, v.Y); !b.top && !b.bot && qleq(qaff{0, 1}, b.lo) {
				q.eval(f, v.X)
				return qitv{lo: qaff{0, 0}, hi: b.hi.minus(qaff{0, 1})}
			}
			return qTop
		case token.SHR, token.AND, token.QUO:
			a := q.eval(f, v.X)
			if a.top || a.bot {
				return qTop
			}
			return qitv{lo: qaff{0, 0}, hi: a.hi}
		}
		return qTop
	case *ast.CallExpr:
		if tv, ok := q.info.Types[v.Fun]; ok && tv.IsType() && len(v.Args) == 1 {
			if isUint64(q.info.TypeOf(v.Args[0])) {
				return q.eval(f, v.Args[0])
			}
			if n := q.evalInt(f, v.Args[0]); n.known && n.v >= 0 {
				return qconst(n.v)
			}
			return qTop
		}
		rs := q.call(f, v)
		if len(rs) == 1 {
			return rs[0]
		}
		return qTop
	}
	return qTop
}

// call evaluates a call: primitives by their summary, functions of the analysed package by inlining.
func (q *qInterp) call(f *qFrame, call *ast.CallExpr) []qitv {
	fn := calleeFunc(q.info, call)
	if fn == nil {
		// a local that holds a function selected earlier (`transform := a; if small { transform = b }; transform(…)`)
		if id, ok := unparen(call.Fun).(*ast.Ident); ok {
			if g := f.fn[q.info.Uses[id]]; g != nil {
				fn = g
			} else if _, isVar := q.info.Uses[id].(*types.Var); isVar && q.exact {
				q.problem(call.Pos(), "index", "call through the function value %s, which the analysis could not resolve", id.Name)
			}
		}
	}
	if fn == nil {
		for _, a := range call.Args {
			if isUint64(q.info.TypeOf(a)) {
				q.eval(f, a)
			}
		}
		return nil
	}
	if q.trackDeps {
		d := q.depOf(f, call)
		q.lastRetDep = nil
		if sig, _ := fn.Type().(*types.Signature); sig != nil {
			for i := 0; i < sig.Results().Len(); i++ {
				q.lastRetDep = append(q.lastRetDep, d)
			}
		}
	}
	if out, ok := q.primSummary(fn); ok {
		var args []qitv
		for _, a := range call.Args {
			if isUint64(q.info.TypeOf(a)) {
				args = append(args, q.eval(f, a))
			} else {
				args = append(args, qTop)
			}
		}
		switch fn.Name() {
		case "CRed":
			// one conditional subtraction of the modulus
			if len(args) > 0 {
				a := args[0]
				if a.top || a.bot {
					return []qitv{qTop}
				}
				r := qBot
				if !qleq(qaff{1, 0}, a.lo) { // some value below q
					hi := a.hi
					if qleq(qaff{1, -1}, hi) {
						hi = qaff{1, -1}
					}
					r = r.join(qitv{lo: a.lo, hi: hi})
				}
				if qleq(qaff{1, 0}, a.hi) { // some value >= q
					lo := a.lo
					if qleq(lo, qaff{1, 0}) {
						lo = qaff{1, 0}
					}
					r = r.join(qitv{lo: lo.minus(qaff{1, 0}), hi: a.hi.minus(qaff{1, 0})})
				}
				return []qitv{r}
			}
		case "MRed", "MRedLazy":
			// x*y must stay below q*2^64: one factor below q, or the product of the factors' multiples of q at most 8
			if len(args) >= 2 {
				x, y := args[0], args[1]
				okp := false
				switch {
				case !y.top && !y.bot && qleq(y.hi, qaff{1, -1}), !x.top && !x.bot && qleq(x.hi, qaff{1, -1}):
					okp = true
				case !x.top && !y.top && !x.bot && !y.bot:
					okp = (x.hi.a+1)*(y.hi.a+1) <= 8
				}
				if !okp {
					q.problem(call.Pos(), "mred", "%s: the product of the operands (%s times %s) is not bounded by q*2^64, the precondition of the Montgomery reduction", exprString(call), x.String(), y.String())
				}
			}
		}
		return []qitv{out}
	}
	fd := q.decls[fn]
	if fd == nil || fd.Body == nil || q.depth > 6 {
		for _, a := range call.Args {
			if isUint64(q.info.TypeOf(a)) {
				q.eval(f, a)
			}
		}
		sig, _ := fn.Type().(*types.Signature)
		if sig != nil {
			rs := make([]qitv, sig.Results().Len())
			for i := range rs {
				rs[i] = qTop
			}
			return rs
		}
		return nil
	}
	// inline
	g := newQFrame()
	i := 0
	for _, fl := range fd.Type.Params.List {
		for _, nm := range fl.Names {
			if i >= len(call.Args) {
				break
			}
			o := q.info.Defs[nm]
			a := call.Args[i]
			t := q.info.TypeOf(a)
			switch {
			case isUint64(t):
				g.u[o] = q.eval(f, a)
				if q.trackDeps {
					g.dep[o] = q.depOf(f, a)
				}
			case isIntLike(t):
				g.n[o] = q.evalInt(f, a)
			default:
				if s, b := q.symOf(f, a); s != "" {
					g.sym[o] = s
					g.base[o] = b
				}
			}
			i++
		}
	}
	if fd.Type.Results != nil {
		for _, fl := range fd.Type.Results.List {
			for _, nm := range fl.Names {
				if isUint64(q.info.TypeOf(nm)) {
					g.u[q.info.Defs[nm]] = qconst(0)
				}
			}
		}
	}
	q.depth++
	g = q.block(g, fd.Body.List)
	q.depth--
	if g.ret == nil && fd.Type.Results != nil {
		// bare return of named results
		for _, fl := range fd.Type.Results.List {
			for _, nm := range fl.Names {
				if isUint64(q.info.TypeOf(nm)) {
					g.ret = append(g.ret, g.u[q.info.Defs[nm]])
					g.retDep = append(g.retDep, g.dep[q.info.Defs[nm]])
				} else {
					g.ret = append(g.ret, qTop)
					g.retDep = append(g.retDep, "")
				}
			}
		}
	}
	if q.trackDeps {
		q.lastRetDep = append([]string(nil), g.retDep...)
	}
	return g.ret
}

// rowOf evaluates a struct literal whose fields are all integers known to the analysis.
func (q *qInterp) rowOf(f *qFrame, x ast.Expr) (map[string]ival, bool) {
	cl, ok := unparen(x).(*ast.CompositeLit)
	if !ok {
		return nil, false
	}
	st, ok := q.info.TypeOf(cl).Underlying().(*types.Struct)
	if !ok || st.NumFields() == 0 {
		return nil, false
	}
	for i := 0; i < st.NumFields(); i++ {
		if !isIntLike(st.Field(i).Type()) {
			return nil, false
		}
	}
	row := map[string]ival{}
	for i, el := range cl.Elts {
		if kv, ok := el.(*ast.KeyValueExpr); ok {
			k, ok := kv.Key.(*ast.Ident)
			if !ok {
				return nil, false
			}
			row[k.Name] = q.evalIntAny(f, kv.Value)
		} else if i < st.NumFields() {
			row[st.Field(i).Name()] = q.evalIntAny(f, el)
		}
	}
	for i := 0; i < st.NumFields(); i++ {
		if _, ok := row[st.Field(i).Name()]; !ok {
			row[st.Field(i).Name()] = ival{true, 0}
		}
	}
	return row, true
}

// tableOf evaluates an expression that yields a slice of integer rows: make([]T, 0, k), a literal, append(tab, rows…).
func (q *qInterp) tableOf(f *qFrame, x ast.Expr) ([]map[string]ival, bool) {
	x = unparen(x)
	t := q.info.TypeOf(x)
	if t == nil {
		return nil, false
	}
	sl, ok := t.Underlying().(*types.Slice)
	if !ok {
		return nil, false
	}
	st, ok := sl.Elem().Underlying().(*types.Struct)
	if !ok || st.NumFields() == 0 {
		return nil, false
	}
	for i := 0; i < st.NumFields(); i++ {
		if !isIntLike(st.Field(i).Type()) {
			return nil, false
		}
	}
	switch v := x.(type) {
	case *ast.CompositeLit:
		var rows []map[string]ival
		for _, el := range v.Elts {
			// elided element type: the literal has no type of its own in go/types for `{…}` rows
			cl, ok := el.(*ast.CompositeLit)
			if !ok {
				return nil, false
			}
			row := map[string]ival{}
			for i, fe := range cl.Elts {
				if kv, ok := fe.(*ast.KeyValueExpr); ok {
					if k, ok := kv.Key.(*ast.Ident); ok {
						row[k.Name] = q.evalIntAny(f, kv.Value)
					}
				} else if i < st.NumFields() {
					row[st.Field(i).Name()] = q.evalIntAny(f, fe)
				}
			}
			rows = append(rows, row)
		}
		return rows, true
	case *ast.CallExpr:
		if isBuiltinCall(q.info, v, "make") {
			if len(v.Args) >= 2 {
				if n := q.evalIntAny(f, v.Args[1]); n.known && n.v == 0 {
					return []map[string]ival{}, true
				}
			}
			return nil, false
		}
		if isBuiltinCall(q.info, v, "append") && len(v.Args) >= 1 {
			id, ok := unparen(v.Args[0]).(*ast.Ident)
			if !ok {
				return nil, false
			}
			base, ok := f.tab[q.info.Uses[id]]
			if !ok {
				return nil, false
			}
			rows := append([]map[string]ival{}, base...)
			for _, a := range v.Args[1:] {
				row, ok := q.rowOf(f, a)
				if !ok {
					return nil, false
				}
				rows = append(rows, row)
			}
			return rows, true
		}
	}
	return nil, false
}

// sliceLen is the length of a tracked slice expression, when the analysis knows it (exact mode).
func (q *qInterp) sliceLen(f *qFrame, x ast.Expr) ival {
	if q.slen == nil {
		return ival{}
	}
	x = unparen(x)
	if se, ok := x.(*ast.SliceExpr); ok {
		lo := ival{true, 0}
		if se.Low != nil {
			lo = q.evalIntAny(f, se.Low)
		}
		hi := ival{}
		if se.High != nil {
			hi = q.evalIntAny(f, se.High)
		} else {
			hi = q.sliceLen(f, se.X)
		}
		if lo.known && hi.known {
			return ival{true, hi.v - lo.v}
		}
		return ival{}
	}
	if id, ok := x.(*ast.Ident); ok {
		o := q.info.Uses[id]
		if o == nil {
			o = q.info.Defs[id]
		}
		if n, ok := f.vlen[o]; ok {
			return n
		}
	}
	if s, b := q.symOf(f, x); s != "" && b.known {
		if n, ok := q.slen[s]; ok {
			return ival{true, n - b.v}
		}
	}
	return ival{}
}

// symOf resolves a slice-valued expression to its abstract symbol and the offset of its first element.
func (q *qInterp) symOf(f *qFrame, x ast.Expr) (string, ival) {
	x = unparen(x)
	// ring level: the residues of a polynomial operand, `p1.Coeffs[i]` (one representative residue is analysed)
	if q.ringN > 0 {
		if ix, ok := x.(*ast.IndexExpr); ok {
			if se, ok := unparen(ix.X).(*ast.SelectorExpr); ok && se.Sel.Name == "Coeffs" {
				if id, ok := unparen(se.X).(*ast.Ident); ok {
					o := q.info.Uses[id]
					if s, ok := f.sym[o]; ok {
						return s, ival{true, 0}
					}
				}
			}
		}
	}
	switch v := x.(type) {
	case *ast.Ident:
		o := q.info.Uses[v]
		if o == nil {
			o = q.info.Defs[v]
		}
		if s, ok := f.sym[o]; ok {
			b, okb := f.base[o]
			if !okb {
				b = ival{true, 0}
			}
			return s, b
		}
	case *ast.SliceExpr:
		s, b := q.symOf(f, v.X)
		if s == "" {
			return "", ival{}
		}
		if v.Low == nil {
			return s, b
		}
		lo := q.evalIntAny(f, v.Low)
		if lo.known && b.known {
			return s, ival{true, b.v + lo.v}
		}
		return s, ival{}
	case *ast.CallExpr:
		// (*[8]uint64)(unsafe.Pointer(&p[j]))
		if len(v.Args) == 1 {
			if inner, ok := unparen(v.Args[0]).(*ast.CallExpr); ok && len(inner.Args) == 1 {
				if u, ok := unparen(inner.Args[0]).(*ast.UnaryExpr); ok && u.Op == token.AND {
					if ix, ok := unparen(u.X).(*ast.IndexExpr); ok {
						s, b := q.symOf(f, ix.X)
						if s == "" {
							return "", ival{}
						}
						i := q.evalIntAny(f, ix.Index)
						if i.known && b.known {
							return s, ival{true, b.v + i.v}
						}
						return s, ival{}
					}
				}
			}
		}
	}
	return "", ival{}
}

func (q *qInterp) block(f *qFrame, list []ast.Stmt) *qFrame {
	for _, st := range list {
		if f.returned {
			break
		}
		f = q.stmt(f, st)
	}
	return f
}

func (q *qInterp) assign(f *qFrame, lhs ast.Expr, v qitv, iv ival, isInt bool, bv int, pos token.Pos) {
	lhs = unparen(lhs)
	if len(f.leq) > 0 {
		// an assignment may change an operand of a recorded comparison
		ls := exprString(lhs)
		for k := range f.leq {
			if strings.Contains(k, ls) {
				delete(f.leq, k)
			}
		}
	}
	switch l := lhs.(type) {
	case *ast.Ident:
		if l.Name == "_" {
			return
		}
		o := q.info.Defs[l]
		if o == nil {
			o = q.info.Uses[l]
		}
		if o == nil {
			return
		}
		t := o.Type()
		switch {
		case isUint64(t):
			f.u[o] = v
		case isIntLike(t):
			f.n[o] = iv
		default:
			if b, ok := t.Underlying().(*types.Basic); ok && b.Kind() == types.Bool {
				f.bl[o] = bv
			}
		}
	case *ast.IndexExpr:
		if isUint64(q.info.TypeOf(l)) {
			sym, key := q.cellKey(f, l)
			if sym != "" {
				q.writeCell(sym, key, v, pos)
			}
		}
	}
}

func (q *qInterp) stmt(f *qFrame, st ast.Stmt) *qFrame {
	q.steps++
	if q.steps > qStepLimit {
		return f
	}
	switch s := st.(type) {
	case *ast.BlockStmt:
		return q.block(f, s.List)
	case *ast.DeclStmt:
		if gd, ok := s.Decl.(*ast.GenDecl); ok {
			for _, sp := range gd.Specs {
				if vs, ok := sp.(*ast.ValueSpec); ok {
					for i, nm := range vs.Names {
						o := q.info.Defs[nm]
						if o == nil {
							continue
						}
						switch {
						case isUint64(o.Type()):
							if i < len(vs.Values) {
								f.u[o] = q.eval(f, vs.Values[i])
								if q.trackDeps {
									f.dep[o] = q.depOf(f, vs.Values[i])
								}
							} else {
								f.u[o] = qconst(0)
							}
						case isIntLike(o.Type()):
							if i < len(vs.Values) {
								f.n[o] = q.evalInt(f, vs.Values[i])
							} else {
								f.n[o] = ival{true, 0}
							}
						default:
							if b, ok := o.Type().Underlying().(*types.Basic); ok && b.Kind() == types.Bool {
								f.bl[o] = 2
							}
						}
					}
				}
			}
		}
		return f
	case *ast.ExprStmt:
		if call, ok := unparen(s.X).(*ast.CallExpr); ok {
			if id, ok := unparen(call.Fun).(*ast.Ident); ok && id.Name == "panic" {
				f.returned = true
				return f
			}
			// copy(dst, src) between tracked slices of known length: coefficient by coefficient
			if q.exact && isBuiltinCall(q.info, call, "copy") && len(call.Args) == 2 {
				ds, db := q.symOf(f, call.Args[0])
				ss, sb := q.symOf(f, call.Args[1])
				dn, sn := q.sliceLen(f, call.Args[0]), q.sliceLen(f, call.Args[1])
				if ds != "" && ss != "" && db.known && sb.known && dn.known && sn.known {
					n := dn.v
					if sn.v < n {
						n = sn.v
					}
					type cp struct {
						v   qitv
						dep string
					}
					vals := make([]cp, n)
					for i := int64(0); i < n; i++ {
						key := fmt.Sprintf("%s#%d", ss, sb.v+i)
						d := key
						if q.resolved != nil {
							if r, ok := q.resolved[key]; ok {
								d = r
							}
						}
						vals[i] = cp{q.readCell(ss, key), d}
					}
					for i := int64(0); i < n; i++ {
						key := fmt.Sprintf("%s#%d", ds, db.v+i)
						q.writeCell(ds, key, vals[i].v, call.Pos())
						if q.trackDeps {
							q.hist[key] = append(q.hist[key], vals[i].dep)
							q.histPos[key] = append(q.histPos[key], call.Pos())
							if q.resolved != nil {
								q.resolved[key] = vals[i].dep
							}
						}
					}
					return f
				}
			}
			q.call(f, call)
		}
		return f
	case *ast.BranchStmt:
		if s.Tok == token.CONTINUE && s.Label == nil {
			f.returned = true
			f.jumped = true
		}
		return f
	case *ast.IncDecStmt:
		if id, ok := unparen(s.X).(*ast.Ident); ok {
			o := q.info.Uses[id]
			if iv, ok := f.n[o]; ok && iv.known {
				if s.Tok == token.INC {
					f.n[o] = ival{true, iv.v + 1}
				} else {
					f.n[o] = ival{true, iv.v - 1}
				}
			} else if isUint64(q.info.TypeOf(id)) {
				f.u[o] = qTop
			}
		}
		return f
	case *ast.AssignStmt:
		return q.assignStmt(f, s)
	case *ast.ReturnStmt:
		var rs []qitv
		var ds []string
		if len(s.Results) == 1 {
			if call, ok := unparen(s.Results[0]).(*ast.CallExpr); ok && !isUint64(q.info.TypeOf(call)) {
				if _, isTuple := q.info.TypeOf(call).(*types.Tuple); isTuple {
					rs = q.call(f, call)
					ds = append(ds, q.lastRetDep...)
				}
			}
		}
		if rs == nil {
			for _, r := range s.Results {
				if isUint64(q.info.TypeOf(r)) {
					rs = append(rs, q.eval(f, r))
					ds = append(ds, q.depOf(f, r))
				} else {
					rs = append(rs, qTop)
					ds = append(ds, "")
				}
			}
		}
		if len(s.Results) == 0 {
			rs = nil
		}
		if rs != nil {
			f.ret = joinRets(f.ret, rs)
			if q.trackDeps {
				for len(ds) < len(rs) {
					ds = append(ds, "")
				}
				f.retDep = joinRetDeps(f.retDep, ds)
			}
		}
		f.returned = true
		return f
	case *ast.IfStmt:
		if s.Init != nil {
			f = q.stmt(f, s.Init)
		}
		switch q.evalBool(f, s.Cond) {
		case 1:
			return q.block(f, s.Body.List)
		case 2:
			if s.Else != nil {
				return q.stmt(f, s.Else)
			}
			return f
		}
		ft, fe := f.clone(), f.clone()
		q.refine(ft, s.Cond, true)
		q.refine(fe, s.Cond, false)
		ft = q.block(ft, s.Body.List)
		if s.Else != nil {
			fe = q.stmt(fe, s.Else)
		}
		return joinFrames(ft, fe)
	case *ast.ForStmt:
		return q.forStmt(f, s)
	case *ast.RangeStmt:
		// ring level: the loop over the sub-rings is analysed for one representative residue
		if q.ringN > 0 && strings.Contains(exprString(s.X), "SubRings") {
			if s.Key != nil {
				q.assign(f, s.Key, qTop, ival{true, 0}, true, 0, s.Pos())
			}
			return q.loopBody(f, s.Body.List)
		}
		// a range over a table of integer rows built by the function: one iteration per row, the value variable is the row
		if id, ok := unparen(s.X).(*ast.Ident); ok {
			if rows, ok := f.tab[q.info.Uses[id]]; ok && len(rows) <= 128 {
				for i, row := range rows {
					if f.returned || q.steps > qStepLimit {
						break
					}
					if s.Key != nil {
						q.assign(f, s.Key, qTop, ival{true, int64(i)}, true, 0, s.Pos())
					}
					if vid, ok := s.Value.(*ast.Ident); ok && vid.Name != "_" {
						if vo := q.info.Defs[vid]; vo != nil {
							f.rec[vo] = row
						}
					}
					f = q.loopBody(f, s.Body.List)
				}
				return f
			}
		}
		// exact mode: a range over a slice of known length (or over an integer) is executed index by index; a range over
		// a window (an array of at most 32 elements) always is
		smallArray := false
		if t := q.info.TypeOf(s.X); t != nil {
			at := t.Underlying()
			if pt, ok := at.(*types.Pointer); ok {
				at = pt.Elem().Underlying()
			}
			if arr, ok := at.(*types.Array); ok && arr.Len() <= 32 {
				smallArray = true
			}
		}
		if q.exact || smallArray {
			n := ival{}
			isSlice := false
			if t := q.info.TypeOf(s.X); t != nil {
				at := t.Underlying()
				if pt, ok := at.(*types.Pointer); ok {
					at = pt.Elem().Underlying()
				}
				if _, ok := t.Underlying().(*types.Slice); ok {
					isSlice = true
					n = q.sliceLen(f, s.X)
				} else if arr, ok := at.(*types.Array); ok {
					// a window `x := (*[8]uint64)(unsafe.Pointer(&p[j]))`, or an array
					isSlice = true
					n = ival{true, arr.Len()}
				} else if isIntLike(t) {
					n = q.evalIntAny(f, s.X)
				}
			}
			if n.known && n.v >= 0 {
				for i := int64(0); i < n.v; i++ {
					if f.returned || q.steps > qStepLimit {
						break
					}
					if s.Key != nil {
						q.assign(f, s.Key, qTop, ival{true, i}, true, 0, s.Pos())
					}
					if s.Value != nil && isSlice {
						ix := &ast.IndexExpr{X: s.X, Index: &ast.BasicLit{Kind: token.INT, Value: fmt.Sprint(i)}}
						v := qTop
						dep := ""
						if sym, b := q.symOf(f, s.X); sym != "" && b.known {
							key := fmt.Sprintf("%s#%d", sym, b.v+i)
							v = q.readCell(sym, key)
							dep = key
							if q.resolved != nil {
								if r, ok := q.resolved[key]; ok {
									dep = r
								}
							}
						}
						_ = ix
						q.assign(f, s.Value, v, ival{}, false, 0, s.Pos())
						q.noteStore(f, s.Value, dep, s.Pos())
					}
					f = q.loopBody(f, s.Body.List)
				}
				return f
			}
		}
		// executed abstractly once
		if s.Key != nil {
			q.assign(f, s.Key, qTop, ival{}, true, 0, s.Pos())
		}
		if s.Value != nil {
			v := qTop
			if sym, _ := q.symOf(f, s.X); sym != "" {
				v = q.readCell(sym, sym)
			}
			q.assign(f, s.Value, v, ival{}, false, 0, s.Pos())
		}
		return q.parallel(f, false, func(g *qFrame) *qFrame { return q.loopBody(g, s.Body.List) })
	case *ast.SwitchStmt:
		// tagged over an integer or tagless over conditions: the clauses are tried in order, a clause whose test is
		// decided selects or is skipped, an undecided one is entered on a copy of the state and joined
		if s.Init != nil {
			f = q.stmt(f, s.Init)
		}
		var tag ival
		tagged := s.Tag != nil
		if tagged {
			tag = q.evalIntAny(f, s.Tag)
		}
		var res *qFrame
		var deflt *ast.CaseClause
		decided := false
		for _, cl := range s.Body.List {
			cc := cl.(*ast.CaseClause)
			if cc.List == nil {
				deflt = cc
				continue
			}
			// 1 taken for sure, 2 not taken, 0 unknown
			verdict := 2
			for _, e := range cc.List {
				v := 0
				if tagged {
					if c := q.evalIntAny(f, e); tag.known && c.known {
						if tag.v == c.v {
							v = 1
						} else {
							v = 2
						}
					}
				} else {
					v = q.evalBool(f, e)
				}
				if v == 1 {
					verdict = 1
					break
				}
				if v == 0 {
					verdict = 0
				}
			}
			if verdict == 2 {
				continue
			}
			g := f.clone()
			if !tagged && len(cc.List) == 1 {
				q.refine(g, cc.List[0], true)
			}
			g = q.block(g, cc.Body)
			if res == nil {
				res = g
			} else {
				res = joinFrames(res, g)
			}
			if verdict == 1 {
				decided = true
				break
			}
		}
		if !decided {
			g := f.clone()
			if deflt != nil {
				g = q.block(g, deflt.Body)
			}
			if res == nil {
				res = g
			} else {
				res = joinFrames(res, g)
			}
		}
		return res
	}
	return f
}

// refine narrows a uint64 variable under a comparison with a bound (`if r >= q { r -= q }`).
func (q *qInterp) refine(f *qFrame, cond ast.Expr, truth bool) {
	be, ok := unparen(cond).(*ast.BinaryExpr)
	if !ok {
		if ue, ok := unparen(cond).(*ast.UnaryExpr); ok && ue.Op == token.NOT {
			q.refine(f, ue.X, !truth)
		}
		return
	}
	// A && B holds: both hold; A || B fails: both fail. The other two cases refine by the operand that decides alone
	// (`flag && x >= y` fails with flag known true: x < y).
	if be.Op == token.LAND || be.Op == token.LOR {
		if (be.Op == token.LAND) == truth {
			q.refine(f, be.X, truth)
			q.refine(f, be.Y, truth)
			return
		}
		neutral := 1 // the value of an operand that leaves the decision to the other one
		if be.Op == token.LOR {
			neutral = 2
		}
		if q.evalBool(f, be.X) == neutral {
			q.refine(f, be.Y, truth)
		} else if q.evalBool(f, be.Y) == neutral {
			q.refine(f, be.X, truth)
		}
		return
	}
	if isUint64(q.info.TypeOf(be.X)) && isUint64(q.info.TypeOf(be.Y)) {
		op := be.Op
		if !truth {
			switch op {
			case token.GTR:
				op = token.LEQ
			case token.GEQ:
				op = token.LSS
			case token.LSS:
				op = token.GEQ
			case token.LEQ:
				op = token.GTR
			default:
				op = token.ILLEGAL
			}
		}
		xs, ys := exprString(be.X), exprString(be.Y)
		switch op {
		case token.LEQ, token.LSS:
			f.leq[xs+"<="+ys] = true
		case token.GEQ, token.GTR:
			f.leq[ys+"<="+xs] = true
		}
		switch op {
		case token.LSS:
			f.leq[xs+"<"+ys] = true
		case token.GTR:
			f.leq[ys+"<"+xs] = true
		}
	}
	id, ok := unparen(be.X).(*ast.Ident)
	if !ok || !isUint64(q.info.TypeOf(id)) {
		return
	}
	o := q.info.Uses[id]
	cur, ok := f.u[o]
	if !ok || cur.top || cur.bot {
		return
	}
	b := q.eval(f, be.Y)
	eb, exact := b.exact()
	if !exact {
		return
	}
	op := be.Op
	if !truth {
		switch op {
		case token.GEQ:
			op = token.LSS
		case token.LSS:
			op = token.GEQ
		case token.GTR:
			op = token.LEQ
		case token.LEQ:
			op = token.GTR
		default:
			return
		}
	}
	switch op {
	case token.GEQ:
		if qleq(cur.lo, eb) {
			cur.lo = eb
		}
	case token.GTR:
		if qleq(cur.lo, eb) {
			cur.lo = eb.plus(qaff{0, 1})
		}
	case token.LSS:
		if qleq(eb, cur.hi) {
			cur.hi = eb.minus(qaff{0, 1})
		}
	case token.LEQ:
		if qleq(eb, cur.hi) {
			cur.hi = eb
		}
	default:
		return
	}
	if !qleq(cur.lo, cur.hi) {
		// infeasible branch
		f.returned = true
		return
	}
	f.u[o] = cur
}

func (q *qInterp) assignStmt(f *qFrame, s *ast.AssignStmt) *qFrame {
	// views: x := (*[8]uint64)(unsafe.Pointer(&p1[j])), psi := roots[a:b]
	if len(s.Lhs) == 1 && len(s.Rhs) == 1 {
		if sym, vb := q.symOf(f, s.Rhs[0]); sym != "" {
			if !isUint64(q.info.TypeOf(s.Rhs[0])) {
				if id, ok := unparen(s.Lhs[0]).(*ast.Ident); ok {
					o := q.info.Defs[id]
					if o == nil {
						o = q.info.Uses[id]
					}
					if o != nil {
						if n := q.sliceLen(f, s.Rhs[0]); n.known {
							f.vlen[o] = n
						} else {
							delete(f.vlen, o)
						}
						f.sym[o] = sym
						f.base[o] = vb
						q.forgetView(id.Name)
					}
					return f
				}
			}
		}
	}
	// ring level: a scratch polynomial of the ring is a fresh symbol whose coefficients are zero
	if q.ringN > 0 && len(s.Lhs) == 1 && len(s.Rhs) == 1 {
		if call, ok := unparen(s.Rhs[0]).(*ast.CallExpr); ok && len(call.Args) == 0 {
			if se, ok := unparen(call.Fun).(*ast.SelectorExpr); ok && se.Sel.Name == "NewPoly" {
				if id, ok := unparen(s.Lhs[0]).(*ast.Ident); ok {
					o := q.info.Defs[id]
					if o == nil {
						o = q.info.Uses[id]
					}
					if o != nil {
						f.sym[o] = id.Name
						f.base[o] = ival{true, 0}
						q.cells[id.Name] = qconst(0)
						q.slen[id.Name] = q.ringN
						return f
					}
				}
			}
		}
	}
	// tables of integer rows: `layers := make([]layer, 0, k)`, `layers = append(layers, layer{m: m, t: t})`,
	// `layers := []layer{{…}, …}`
	if len(s.Lhs) == 1 && len(s.Rhs) == 1 {
		if id, ok := unparen(s.Lhs[0]).(*ast.Ident); ok {
			o := q.info.Defs[id]
			if o == nil {
				o = q.info.Uses[id]
			}
			if o != nil {
				if rows, ok := q.tableOf(f, s.Rhs[0]); ok {
					f.tab[o] = rows
					return f
				}
				if row, ok := q.rowOf(f, s.Rhs[0]); ok {
					f.rec[o] = row
					return f
				}
			}
		}
	}
	// tuple from a call
	if len(s.Rhs) == 1 && len(s.Lhs) > 1 {
		if call, ok := unparen(s.Rhs[0]).(*ast.CallExpr); ok {
			rs := q.call(f, call)
			ds := append([]string(nil), q.lastRetDep...)
			for i, l := range s.Lhs {
				v := qTop
				if i < len(rs) {
					v = rs[i]
				}
				q.assign(f, l, v, ival{}, false, 0, s.Pos())
				if i < len(ds) {
					q.noteStore(f, l, ds[i], s.Pos())
				} else {
					q.noteStore(f, l, "", s.Pos())
				}
			}
			return f
		}
	}
	if len(s.Lhs) != len(s.Rhs) {
		return f
	}
	type val struct {
		u   qitv
		n   ival
		b   int
		sym string
		vb  ival
		vl  ival
	}
	vals := make([]val, len(s.Rhs))
	deps := make([]string, len(s.Rhs))
	for i, r := range s.Rhs {
		if q.trackDeps && isUint64(q.info.TypeOf(r)) {
			deps[i] = q.depOf(f, r)
			if s.Tok != token.ASSIGN && s.Tok != token.DEFINE {
				deps[i] = depUnion(deps[i], q.depOf(f, s.Lhs[i]))
			}
		}
		t := q.info.TypeOf(s.Lhs[i])
		if id, ok := unparen(s.Lhs[i]).(*ast.Ident); ok && t == nil {
			if o := q.info.Defs[id]; o != nil {
				t = o.Type()
			}
		}
		switch {
		case isUint64(t):
			v := q.eval(f, r)
			if s.Tok != token.ASSIGN && s.Tok != token.DEFINE {
				cur := q.eval(f, s.Lhs[i])
				bin := &ast.BinaryExpr{X: s.Lhs[i], Y: r, OpPos: s.TokPos}
				switch s.Tok {
				case token.ADD_ASSIGN:
					bin.Op = token.ADD
					if cur.top || v.top || cur.bot || v.bot {
						v = qTop
					} else {
						v = q.checkOverflow(s.Lhs[i], qitv{lo: cur.lo.plus(v.lo), hi: cur.hi.plus(v.hi)})
					}
				case token.SUB_ASSIGN:
					if cur.top || v.top || cur.bot || v.bot {
						q.undecided++
						v = qTop
					} else if !qleq(v.hi, cur.lo) {
						q.problem(s.Pos(), "underflow", "%s -= %s: the left operand can be as small as %s while the right operand can be as large as %s, so the unsigned subtraction can wrap around", exprString(s.Lhs[i]), exprString(r), cur.lo, v.hi)
						v = qTop
					} else {
						v = qitv{lo: cur.lo.minus(v.hi), hi: cur.hi.minus(v.lo)}
					}
				default:
					v = qTop
				}
			}
			vals[i].u = v
		case isIntLike(t):
			n := q.evalInt(f, r)
			if s.Tok != token.ASSIGN && s.Tok != token.DEFINE {
				cur := q.evalInt(f, s.Lhs[i])
				if cur.known && n.known {
					switch s.Tok {
					case token.ADD_ASSIGN:
						n = ival{true, cur.v + n.v}
					case token.SUB_ASSIGN:
						n = ival{true, cur.v - n.v}
					case token.MUL_ASSIGN:
						n = ival{true, cur.v * n.v}
					case token.SHL_ASSIGN:
						n = ival{true, cur.v << uint(n.v)}
					case token.SHR_ASSIGN:
						n = ival{true, cur.v >> uint(n.v)}
					case token.REM_ASSIGN:
						if n.v != 0 {
							n = ival{true, cur.v % n.v}
						} else {
							n = ival{}
						}
					case token.QUO_ASSIGN:
						if n.v != 0 {
							n = ival{true, cur.v / n.v}
						} else {
							n = ival{}
						}
					case token.AND_ASSIGN:
						n = ival{true, cur.v & n.v}
					case token.OR_ASSIGN:
						n = ival{true, cur.v | n.v}
					default:
						n = ival{}
					}
				} else {
					n = ival{}
				}
			}
			vals[i].n = n
		default:
			if t != nil {
				if _, isFn := t.Underlying().(*types.Signature); isFn {
					if lid, ok := unparen(s.Lhs[i]).(*ast.Ident); ok {
						lo := q.info.Defs[lid]
						if lo == nil {
							lo = q.info.Uses[lid]
						}
						var target *types.Func
						switch rv := unparen(r).(type) {
						case *ast.Ident:
							target, _ = q.info.Uses[rv].(*types.Func)
							if target == nil {
								target = f.fn[q.info.Uses[rv]]
							}
						case *ast.SelectorExpr:
							target, _ = q.info.Uses[rv.Sel].(*types.Func)
						}
						if lo != nil {
							if target != nil {
								f.fn[lo] = target
							} else {
								delete(f.fn, lo)
							}
						}
					}
					continue
				}
			}
			if sym, vb := q.symOf(f, r); sym != "" {
				vals[i].sym, vals[i].vb = sym, vb
				vals[i].vl = q.sliceLen(f, r)
			} else if b, ok := t.(*types.Basic); ok && b.Info()&types.IsBoolean != 0 {
				vals[i].b = q.evalBool(f, r)
			} else if t != nil {
				if b, ok := t.Underlying().(*types.Basic); ok && b.Kind() == types.Bool {
					vals[i].b = q.evalBool(f, r)
				}
			}
		}
	}
	for i, l := range s.Lhs {
		if vals[i].sym != "" {
			if id, ok := unparen(l).(*ast.Ident); ok {
				o := q.info.Defs[id]
				if o == nil {
					o = q.info.Uses[id]
				}
				if o != nil {
					f.sym[o] = vals[i].sym
					f.base[o] = vals[i].vb
					if vals[i].vl.known {
						f.vlen[o] = vals[i].vl
					} else {
						delete(f.vlen, o)
					}
					q.forgetView(id.Name)
				}
			}
			continue
		}
		q.assign(f, l, vals[i].u, vals[i].n, false, vals[i].b, s.Pos())
		q.noteStore(f, l, deps[i], s.Pos())
	}
	return f
}

// geometric reports whether the loop's induction step is a shift/multiplication (m <<= 1, m >>= 1): such loops are the
// layer loops of the transforms and are executed concretely; all other loops are parallel maps over the coefficients.
func geometricLoop(s *ast.ForStmt) bool {
	as, ok := s.Post.(*ast.AssignStmt)
	if !ok {
		return false
	}
	switch as.Tok {
	case token.SHL_ASSIGN, token.SHR_ASSIGN, token.MUL_ASSIGN, token.QUO_ASSIGN:
		return len(as.Lhs) == 1
	}
	return false
}

// smallConstLoop: `for k := c0; k < C; k++` (or k += c) with constant bounds and at most 32 iterations — the lanes of a
// window written as a loop. Such a loop is executed iteration by iteration like the written-out lanes would be.
func smallConstLoop(info *types.Info, s *ast.ForStmt) bool {
	init, ok := s.Init.(*ast.AssignStmt)
	if !ok || init.Tok != token.DEFINE || len(init.Lhs) != 1 || len(init.Rhs) != 1 {
		return false
	}
	k, ok := init.Lhs[0].(*ast.Ident)
	if !ok {
		return false
	}
	if tv, ok := info.Types[init.Rhs[0]]; !ok || tv.Value == nil {
		return false
	}
	cond, ok := unparen(s.Cond).(*ast.BinaryExpr)
	if !ok || (cond.Op != token.LSS && cond.Op != token.LEQ) {
		return false
	}
	if id, ok := unparen(cond.X).(*ast.Ident); !ok || info.Uses[id] != info.Defs[k] {
		return false
	}
	tv, ok := info.Types[cond.Y]
	if !ok || tv.Value == nil {
		return false
	}
	if n, ok := constant.Int64Val(constant.ToInt(tv.Value)); !ok || n > 32 {
		return false
	}
	switch p := s.Post.(type) {
	case *ast.IncDecStmt:
		id, ok := unparen(p.X).(*ast.Ident)
		return ok && p.Tok == token.INC && info.Uses[id] == info.Defs[k]
	case *ast.AssignStmt:
		if len(p.Lhs) == 1 && len(p.Rhs) == 1 && p.Tok == token.ADD_ASSIGN {
			id, ok := unparen(p.Lhs[0]).(*ast.Ident)
			ptv, okv := info.Types[p.Rhs[0]]
			return ok && info.Uses[id] == info.Defs[k] && okv && ptv.Value != nil
		}
	}
	return false
}

func (q *qInterp) forStmt(f *qFrame, s *ast.ForStmt) *qFrame {
	if s.Init != nil {
		f = q.stmt(f, s.Init)
	}
	if q.exact {
		for iter := 0; ; iter++ {
			c := 1
			if s.Cond != nil {
				c = q.evalBool(f, s.Cond)
			}
			if c == 2 {
				return f
			}
			if c == 0 || q.steps > qStepLimit {
				q.problem(s.Pos(), "loop", "the condition of this loop could not be evaluated concretely (exact mode)")
				return f
			}
			f = q.loopBody(f, s.Body.List)
			if f.returned {
				return f
			}
			if s.Post != nil {
				f = q.stmt(f, s.Post)
			}
		}
	}
	if geometricLoop(s) || smallConstLoop(q.info, s) {
		for iter := 0; iter < 80; iter++ {
			c := 0
			if s.Cond != nil {
				c = q.evalBool(f, s.Cond)
			}
			if c == 2 {
				return f
			}
			if c == 0 {
				// trip count unknown: run the body to a fixpoint of the cells (bounded), joining the states
				return q.fixpointLoop(f, s)
			}
			f = q.loopBody(f, s.Body.List)
			if f.returned {
				return f
			}
			f = q.stmt(f, s.Post)
		}
		q.problem(s.Pos(), "loop", "layer loop did not terminate within 80 abstract iterations")
		return f
	}
	// a linear loop: zero iterations possible unless the condition holds at entry
	c := 0
	if s.Cond != nil {
		c = q.evalBool(f, s.Cond)
	}
	if c == 2 {
		return f
	}
	// the counters it advances are unknown inside the body
	entry := f.clone()
	q.havocPost(f, s.Post)
	q.havocAssignedInts(f, s.Body)
	g := q.parallel(f, false, func(g *qFrame) *qFrame { return q.loopBody(g, s.Body.List) })
	q.havocPost(g, s.Post)
	if c != 1 {
		g = joinFrames(g, entry)
	}
	g.returned = false
	return g
}

func (q *qInterp) havocPost(f *qFrame, post ast.Stmt) {
	if post == nil {
		return
	}
	ast.Inspect(post, func(n ast.Node) bool {
		switch x := n.(type) {
		case *ast.AssignStmt:
			for _, l := range x.Lhs {
				if id, ok := unparen(l).(*ast.Ident); ok {
					if o := q.info.Uses[id]; o != nil {
						if _, ok := f.n[o]; ok || isIntLike(o.Type()) {
							f.n[o] = ival{}
						}
					}
				}
			}
		case *ast.IncDecStmt:
			if id, ok := unparen(x.X).(*ast.Ident); ok {
				if o := q.info.Uses[id]; o != nil {
					f.n[o] = ival{}
				}
			}
		}
		return true
	})
}

// havocAssignedInts forgets the integers a loop body assigns (they differ from iteration to iteration).
func (q *qInterp) havocAssignedInts(f *qFrame, body *ast.BlockStmt) {
	ast.Inspect(body, func(n ast.Node) bool {
		switch x := n.(type) {
		case *ast.AssignStmt:
			if x.Tok == token.DEFINE {
				return true
			}
			for _, l := range x.Lhs {
				if id, ok := unparen(l).(*ast.Ident); ok {
					if o := q.info.Uses[id]; o != nil && isIntLike(o.Type()) {
						f.n[o] = ival{}
					}
				}
			}
		case *ast.IncDecStmt:
			if id, ok := unparen(x.X).(*ast.Ident); ok {
				if o := q.info.Uses[id]; o != nil && isIntLike(o.Type()) {
					f.n[o] = ival{}
				}
			}
		}
		return true
	})
}

// parallel runs a loop body as one layer: reads of slice cells see the contents at the entry of the outermost linear
// loop, the writes are collected and installed when that loop is left (every cell a layer reads is the cell the same
// statement overwrites — trusted: index coverage and disjointness of the butterflies of a layer).
func (q *qInterp) parallel(f *qFrame, maySkip bool, body func(*qFrame) *qFrame) *qFrame {
	if q.perIndex || q.exact || q.snapshot != nil {
		// part A (single unrolled loop, per-index cells), exact mode, or already inside a layer
		return body(f)
	}
	q.snapshot = map[string]qitv{}
	for k, v := range q.cells {
		q.snapshot[k] = v
	}
	q.pending = map[string]qitv{}
	q.written = map[string]qitv{}
	g := body(f)
	for k, v := range q.pending {
		if old, ok := q.cells[k]; ok && maySkip {
			v = v.join(old)
		}
		q.cells[k] = v
		// the layer is taken to cover the slice: what was known about single coefficients is superseded
		for ck := range q.cells {
			if strings.HasPrefix(ck, k+"#") {
				delete(q.cells, ck)
			}
		}
	}
	q.snapshot, q.pending, q.written = nil, nil, nil
	return g
}

func (q *qInterp) forgetView(name string) {
	for k := range q.written {
		if strings.Contains(k, "@"+name+"[") {
			delete(q.written, k)
		}
	}
}

// fixpointLoop handles a layer loop whose trip count is unknown: iterate until the cells are stable.
func (q *qInterp) fixpointLoop(f *qFrame, s *ast.ForStmt) *qFrame {
	for iter := 0; iter < 40; iter++ {
		before := map[string]qitv{}
		for k, v := range q.cells {
			before[k] = v
		}
		g := q.loopBody(f.clone(), s.Body.List)
		if s.Post != nil {
			g = q.stmt(g, s.Post)
		}
		g.returned = false
		f = joinFrames(f, g)
		stable := true
		for k, v := range q.cells {
			if old, ok := before[k]; ok {
				j := old.join(v)
				q.cells[k] = j
				if !j.eq(old) {
					stable = false
				}
			} else {
				stable = false
			}
		}
		if stable {
			return f
		}
	}
	q.problem(s.Pos(), "loop", "the ranges of the cells written by this loop do not stabilise: each iteration may add to them without a reduction")
	return f
}

// ---------------------------------------------------------------------------------------------------------------------
// Part A: SubRing methods and their vector kernels.

var qDocRange = regexp.MustCompile(`\[0,\s*(\d+)\s*\*?\s*(?:modulus|q)\s*-\s*(\d+)\s*\]`)
var qDocSubtrahend = regexp.MustCompile(`(twomodulus|(\d+)\s*\*\s*modulus)\s*-\s*(p\d)`)

// qNonLazyExempt: non-lazy methods whose kernel legitimately leaves the range [0, q-1], with the reason.
var qNonLazyExempt = map[string]string{
	// q - x for x = 0 gives q: the negation of a zero coefficient is returned as q (no range is documented; listed in
	// DESIGN 5.3 as an observation about the unchanged code, congruence holds)
	"Neg": "[1, q]",
}

func scanQRangeKernels(c *core.Ctx) []ob { return scanQRangeKernelsInto(c, nil) }

func scanQRangeKernelsInto(c *core.Ctx, known map[*types.Func]qitv) []ob {
	var out []ob
	n := 0
	for _, pk := range c.Pkgs {
		if !(c.IsFixture || core.ShortPkg(pk.PkgPath) == "ring") {
			continue
		}
		info := pk.TypesInfo
		decl := map[*types.Func]*ast.FuncDecl{}
		for _, f := range pk.Syntax {
			for _, d := range f.Decls {
				if fd, ok := d.(*ast.FuncDecl); ok && fd.Body != nil {
					if o, ok := info.Defs[fd.Name].(*types.Func); ok {
						decl[o] = fd
					}
				}
			}
		}
		for _, f := range pk.Syntax {
			for _, d := range f.Decls {
				fd, ok := d.(*ast.FuncDecl)
				if !ok || fd.Body == nil || fd.Recv == nil || !fd.Name.IsExported() {
					continue
				}
				if rn := core.RecvTypeName(fd); rn != "SubRing" && !(c.IsFixture && strings.HasPrefix(rn, "qr")) {
					continue
				}
				call0, callArgs := forwardingCall(info, fd)
				if call0 == nil {
					continue
				}
				call := &ast.CallExpr{Fun: call0.Fun, Lparen: call0.Lparen, Args: callArgs, Rparen: call0.Rparen}
				kern := calleeFunc(info, call0)
				kd := decl[kern]
				if kern == nil || kd == nil || kd.Recv != nil {
					continue
				}
				// only kernels over []uint64
				hasSlice := false
				for _, a := range call.Args {
					if sl, ok := info.TypeOf(a).Underlying().(*types.Slice); ok && isUint64(sl.Elem()) {
						hasSlice = true
					}
				}
				if !hasSlice {
					continue
				}
				fkey := core.FuncKey(pk, fd)
				key := "QRANGE:" + fkey
				doc := strings.ReplaceAll(docText(fd), "\n", " ")
				q := &qInterp{c: c, info: info, decls: decl, cells: map[string]qitv{}, perIndex: true}
				fr := newQFrame()
				// operand assumptions
				lazyIn := map[string]int64{}
				for _, m := range qDocSubtrahend.FindAllStringSubmatch(doc, -1) {
					k := int64(2)
					if m[2] != "" {
						k, _ = strconv.ParseInt(m[2], 10, 64)
					}
					lazyIn[m[3]] = k
				}
				var kparams []*ast.Ident
				for _, fl := range kd.Type.Params.List {
					kparams = append(kparams, fl.Names...)
				}
				if len(kparams) != len(call.Args) {
					out = append(out, incOb("QRANGE", key, c.Rel(fd.Pos()), "kernel arity mismatch"))
					continue
				}
				assumed := []string{}
				for i, a := range call.Args {
					ko := info.Defs[kparams[i]]
					a = unparen(a)
					t := info.TypeOf(a)
					switch {
					case isUint64(t):
						if sel, ok := a.(*ast.SelectorExpr); ok {
							if sel.Sel.Name == "Modulus" {
								fr.u[ko] = qmul(1)
							} else {
								fr.u[ko] = qTop
							}
						} else {
							fr.u[ko] = qbelow(1)
						}
					default:
						if sl, ok := t.Underlying().(*types.Slice); ok && isUint64(sl.Elem()) {
							name := exprString(a)
							fr.sym[ko] = name
							k := int64(1)
							if lk, ok := lazyIn[name]; ok {
								k = lk
							}
							q.cells[name] = qbelow(k)
							assumed = append(assumed, fmt.Sprintf("%s in %s", name, qbelow(k)))
						}
					}
				}
				fr = q.block(fr, kd.Body.List)
				n++
				// contract of the output: the last slice argument
				outSym := ""
				for _, a := range call.Args {
					if sl, ok := info.TypeOf(a).Underlying().(*types.Slice); ok && isUint64(sl.Elem()) {
						outSym = exprString(unparen(a))
					}
				}
				bound := qaff{}
				contract := ""
				if m := qDocRange.FindStringSubmatch(doc); m != nil {
					// the documented ranges are compared in whole multiples of the modulus: the summaries of the lazy
					// primitives are the closed ranges their comments state, whose lower end the Montgomery product does
					// not attain, so `2q - MRedLazy(..)` is over-approximated by one
					k, _ := strconv.ParseInt(m[1], 10, 64)
					bound = qaff{k, 0}
					contract = "documented range " + m[0]
				} else if !strings.Contains(fd.Name.Name, "Lazy") {
					bound = qaff{1, -1}
					contract = "a method that is not named Lazy returns fully reduced values"
					if ex, ok := qNonLazyExempt[fd.Name.Name]; ok {
						bound = qaff{1, 0}
						contract = "exempted: " + ex
					}
				}
				worst := qBot
				var worstPos token.Pos
				for _, s := range q.stores {
					if s.sym == outSym {
						worst = worst.join(s.v)
						if worstPos == token.NoPos || (!s.v.top && !worst.top && s.v.hi == worst.hi) {
							worstPos = s.pos
						}
					}
				}
				if known != nil {
					if o, ok := info.Defs[fd.Name].(*types.Func); ok {
						if worst.bot {
							known[o] = qTop
						} else {
							known[o] = worst
						}
					}
				}
				bad := false
				for _, p := range q.probs {
					bad = true
					out = append(out, violOb("QRANGE", key+"#"+p.kind+":"+qProblemSite(p.msg), c.Rel(p.pos), fmt.Sprintf("%s (kernel %s of %s, operands assumed: %s)", p.msg, kd.Name.Name, fkey, strings.Join(assumed, ", "))))
				}
				if contract != "" && !worst.bot {
					if worst.top || !qleq(worst.hi, bound) {
						bad = true
						// name the first offending store
						pos := worstPos
						for _, s := range q.stores {
							if s.sym == outSym && (s.v.top || !qleq(s.v.hi, bound)) {
								pos = s.pos
								break
							}
						}
						out = append(out, violOb("QRANGE", key+"#range", c.Rel(pos), fmt.Sprintf("kernel %s stores values in %s into %s, but %s promises at most %s (%s; operands assumed: %s)", kd.Name.Name, worst, outSym, fkey, bound, contract, strings.Join(assumed, ", "))))
					}
				}
				if !bad {
					d := fmt.Sprintf("kernel %s: %s in %s", kd.Name.Name, outSym, worst)
					if contract != "" {
						d += " within " + bound.String() + " (" + contract + ")"
					}
					out = append(out, okOb("QRANGE", key, c.Rel(fd.Pos()), d+"; no subtraction can wrap, no sum reaches 2^64; operands assumed: "+strings.Join(assumed, ", "), true))
				}
			}
		}
	}
	c.Stats["qrange_kernels"] += n
	return out
}

func init() {
	core.Register(&core.Rule{Name: "QRANGE", Props: []string{"C01", "C02"},
		Doc: "interval abstract interpretation in units of the modulus (bounds a*q+b, compared for every q in [17, 2^61)) of the vector kernels behind the SubRing methods and of the lazy NTT/INTT of both ring types for every supported ring degree: no unsigned subtraction can wrap, no sum can reach 2^64 for a 61-bit modulus, CRed only sees values in [0, 2q-1], Montgomery products stay below q*2^64, and the stored results lie in the range the method documents (a method not named Lazy: [0, q-1]); primitives are summarised by the range their doc comment states, operands are assumed reduced unless the doc formula subtracts them from a multiple of the modulus",
		Run: func(c *core.Ctx) []ob {
			known := map[*types.Func]qitv{}
			out := scanQRangeKernelsInto(c, known)
			out = append(out, scanQRangeNTT(c, known)...)
			out = append(out, scanQRangeForwarders(c, known)...)
			out = append(out, scanQRangeScalars(c)...)
			if !c.IsFixture {
				out = append(out, core.Floor("QRANGE", nil, "kernels", c.Stats["qrange_kernels"], 34)...)
				out = append(out, core.Floor("QRANGE", nil, "transforms", c.Stats["qrange_transforms"], 8)...)
				out = append(out, control(c, "QRANGE", scanQRangeKernels, "lvfixture.(qrSub).MulThenSubLazy", "lvfixture.(qrSub).SubTwoModulus")...)
			}
			return out
		}})
}

var _ = sort.Strings
var _ *packages.Package

// ---------------------------------------------------------------------------------------------------------------------
// Part B: the transforms of ntt.go, one abstract run per ring degree.

// scanQRangeNTT runs every transform entry point (a package-level function over (p1, p2 []uint64, N int, ..., Q uint64,
// ..., roots []uint64)) for N = 2^3 .. 2^20. The layer loops (geometric induction variable) and everything that depends
// on N, on the layer or on its parity are executed concretely; the loops over the coefficients are executed once as a
// layer. Input coefficients, twiddle factors and N^-1 are assumed in [0, q-1].
func scanQRangeNTT(c *core.Ctx, known map[*types.Func]qitv) []ob {
	var out []ob
	n := 0
	for _, pk := range c.Pkgs {
		if !(c.IsFixture || core.ShortPkg(pk.PkgPath) == "ring") {
			continue
		}
		info := pk.TypesInfo
		decl := map[*types.Func]*ast.FuncDecl{}
		for _, f := range pk.Syntax {
			for _, d := range f.Decls {
				if fd, ok := d.(*ast.FuncDecl); ok && fd.Body != nil {
					if o, ok := info.Defs[fd.Name].(*types.Func); ok {
						decl[o] = fd
					}
				}
			}
		}
		for _, f := range pk.Syntax {
			for _, d := range f.Decls {
				fd, ok := d.(*ast.FuncDecl)
				if !ok || fd.Body == nil || fd.Recv != nil || !fd.Name.IsExported() {
					continue
				}
				// signature: >= 2 []uint64, an int named N, a uint64 named Q
				var slices []*ast.Ident
				var nParam, qParam *ast.Ident
				var others []*ast.Ident
				for _, fl := range fd.Type.Params.List {
					for _, nm := range fl.Names {
						t := info.TypeOf(nm)
						if sl, ok := t.Underlying().(*types.Slice); ok && isUint64(sl.Elem()) {
							slices = append(slices, nm)
						} else if nm.Name == "N" && isIntLike(t) {
							nParam = nm
						} else if nm.Name == "Q" && isUint64(t) {
							qParam = nm
						} else {
							others = append(others, nm)
						}
					}
				}
				if len(slices) < 3 || nParam == nil || qParam == nil {
					continue
				}
				fkey := core.FuncKey(pk, fd)
				key := "QRANGE:" + fkey
				doc := strings.ReplaceAll(docText(fd), "\n", " ")
				bound := qaff{1, -1}
				contract := "a transform that is not named Lazy returns fully reduced values"
				if m := qDocRange.FindStringSubmatch(doc); m != nil {
					k, _ := strconv.ParseInt(m[1], 10, 64)
					bound = qaff{k, 0}
					contract = "documented range " + m[0]
				} else if strings.Contains(fd.Name.Name, "Lazy") {
					bound = qaff{8, -1}
					contract = "no range documented"
				}
				outSym := slices[1].Name
				var bad []string
				var badPos token.Pos
				worstAll := qBot
				ranges := map[string][]int{}
				var order []string
				type runRes struct {
					res   qitv
					probs []qProblem
				}
				results := make([]runRes, 21)
				var wg sync.WaitGroup
				sem := make(chan struct{}, 16)
				for logN := 3; logN <= 20; logN++ {
					wg.Add(1)
					sem <- struct{}{}
					go func(logN int) {
						defer wg.Done()
						defer func() { <-sem }()
						exact := logN <= qExactMaxLogN || (c.Tier == "thorough" && logN <= qExactMaxLogNThorough)
						q := &qInterp{c: c, info: info, decls: decl, cells: map[string]qitv{}, exact: exact}
						if exact {
							q.slen = map[string]int64{}
						}
						fr := newQFrame()
						for i, s := range slices {
							fr.sym[info.Defs[s]] = s.Name
							fr.base[info.Defs[s]] = ival{true, 0}
							if i != 1 {
								q.cells[s.Name] = qbelow(1)
							}
							if exact && i < 2 {
								q.slen[s.Name] = 1 << uint(logN)
							}
						}
						fr.n[info.Defs[nParam]] = ival{true, 1 << uint(logN)}
						fr.u[info.Defs[qParam]] = qmul(1)
						for _, o := range others {
							if isUint64(info.TypeOf(o)) {
								if strings.Contains(strings.ToLower(o.Name), "constant") {
									fr.u[info.Defs[o]] = qTop
								} else {
									fr.u[info.Defs[o]] = qbelow(1)
								}
							}
						}
						q.block(fr, fd.Body.List)
						if q.steps > qStepLimit {
							q.problem(fd.Pos(), "budget", "abstract execution exceeded its step budget")
						}
						// the result: every coefficient of the output
						res := qBot
						if v, ok := q.cells[outSym]; ok {
							res = v
						}
						ncells := 0
						for k, v := range q.cells {
							if strings.HasPrefix(k, outSym+"#") {
								res = res.join(v)
								ncells++
							}
						}
						if exact && ncells != 1<<uint(logN) {
							q.problem(fd.Pos(), "coverage", "%d of the %d coefficients of %s were stored", ncells, 1<<uint(logN), outSym)
						}
						if res.bot {
							res = qTop
						}
						results[logN] = runRes{res, q.probs}
					}(logN)
				}
				wg.Wait()
				for logN := 3; logN <= 20; logN++ {
					res := results[logN].res
					for _, p := range results[logN].probs {
						msg := fmt.Sprintf("N=2^%d: %s (%s)", logN, p.msg, c.Rel(p.pos))
						if len(bad) < 6 {
							bad = append(bad, msg)
						}
						if badPos == token.NoPos {
							badPos = p.pos
						}
					}
					if res.top || res.bot || !qleq(res.hi, bound) {
						if len(bad) < 6 {
							bad = append(bad, fmt.Sprintf("N=2^%d: %s leaves %s in %s, beyond %s (%s)", logN, fd.Name.Name, outSym, res, bound, contract))
						}
						if badPos == token.NoPos {
							badPos = fd.Pos()
						}
					}
					worstAll = worstAll.join(res)
					rs := res.String()
					if _, seen := ranges[rs]; !seen {
						order = append(order, rs)
					}
					ranges[rs] = append(ranges[rs], logN)
				}
				n++
				if known != nil {
					if o, ok := info.Defs[fd.Name].(*types.Func); ok {
						known[o] = worstAll
					}
				}
				if len(bad) > 0 {
					out = append(out, violOb("QRANGE", key, c.Rel(badPos), fmt.Sprintf("%s: %s", fkey, strings.Join(bad, "; "))))
					continue
				}
				var parts []string
				for _, rs := range order {
					parts = append(parts, fmt.Sprintf("%s for log2(N) in %v", rs, ranges[rs]))
				}
				out = append(out, okOb("QRANGE", key, c.Rel(fd.Pos()), fmt.Sprintf("%s in %s, within %s (%s); no subtraction can wrap and no sum reaches 2^64 in any layer; inputs, roots and N^-1 assumed in [0, q-1]; layers taken as in-place maps over disjoint butterflies", outSym, strings.Join(parts, ", "), bound, contract), true))
			}
		}
	}
	c.Stats["qrange_transforms"] += n
	return out
}

// qProblemSite is the expression a problem is about (the text before the first colon of its message).
func qProblemSite(msg string) string {
	if i := strings.Index(msg, ": "); i > 0 && i < 80 {
		return msg[:i]
	}
	return "?"
}

// ---------------------------------------------------------------------------------------------------------------------
// Part D: functions that only forward to analysed ones inherit their range, and must document no less.

// scanQRangeForwarders propagates the ranges computed for the kernels' methods and the transforms through the functions
// of ring and ring/ringqp whose bodies consist of calls only (loops over the levels, tests of the presence of Q/P): the
// range of what such a function leaves in an output is the range of the last call that wrote it; an interface method
// stands for the join of its implementations. A forwarder that documents a range must document at least that, one that
// is not named Lazy must end reduced.
func scanQRangeForwarders(c *core.Ctx, known map[*types.Func]qitv) []ob {
	var out []ob
	if c.IsFixture {
		return nil
	}
	type fdecl struct {
		pk *packages.Package
		fd *ast.FuncDecl
		fn *types.Func
	}
	var all []fdecl
	byName := map[string][]*types.Func{}
	for _, pk := range c.Pkgs {
		if sp := core.ShortPkg(pk.PkgPath); sp != "ring" && sp != "ring/ringqp" {
			continue
		}
		for _, f := range pk.Syntax {
			if fileIsTestSupport(c.Program, f.Pos()) {
				continue
			}
			for _, d := range f.Decls {
				if fd, ok := d.(*ast.FuncDecl); ok && fd.Body != nil {
					if fn, ok := pk.TypesInfo.Defs[fd.Name].(*types.Func); ok {
						all = append(all, fdecl{pk, fd, fn})
						if fd.Recv != nil {
							byName[fd.Name.Name] = append(byName[fd.Name.Name], fn)
						}
					}
				}
			}
		}
	}
	inModule := func(fn *types.Func) bool {
		if fn == nil || fn.Pkg() == nil {
			return false
		}
		sp := core.ShortPkg(fn.Pkg().Path())
		return sp == "ring" || sp == "ring/ringqp"
	}
	derived := map[*types.Func]qitv{}
	lookup := func(fn *types.Func) (qitv, bool) {
		fn = funcOrigin(fn)
		if v, ok := known[fn]; ok {
			return v, true
		}
		if v, ok := derived[fn]; ok {
			return v, true
		}
		// interface method: join of the implementations
		if sig, ok := fn.Type().(*types.Signature); ok && sig.Recv() != nil {
			if _, isIface := sig.Recv().Type().Underlying().(*types.Interface); isIface {
				r := qBot
				for _, m := range byName[fn.Name()] {
					v, ok := known[m]
					if !ok {
						v, ok = derived[m]
					}
					if !ok {
						return qTop, false
					}
					r = r.join(v)
				}
				if r.bot {
					return qTop, false
				}
				return r, true
			}
		}
		return qTop, false
	}
	// one pass of the forwarding analysis over a function; ok=false when it is not (yet) a resolvable forwarder
	analyse := func(d fdecl) (qitv, bool) {
		info := d.pk.TypesInfo
		okAll := true
		sawCall := false
		var block func(list []ast.Stmt, st map[string]qitv) map[string]qitv
		cp := func(m map[string]qitv) map[string]qitv {
			r := map[string]qitv{}
			for k, v := range m {
				r[k] = v
			}
			return r
		}
		joinM := func(a, b map[string]qitv) map[string]qitv {
			r := cp(a)
			for k, v := range b {
				if w, ok := r[k]; ok {
					r[k] = w.join(v)
				} else {
					r[k] = v
				}
			}
			return r
		}
		block = func(list []ast.Stmt, st map[string]qitv) map[string]qitv {
			for _, s := range list {
				switch x := s.(type) {
				case *ast.ExprStmt:
					call, ok := unparen(x.X).(*ast.CallExpr)
					if !ok {
						okAll = false
						continue
					}
					fn := calleeFunc(info, call)
					if fn == nil {
						if id, ok := unparen(call.Fun).(*ast.Ident); ok && id.Name == "panic" {
							continue
						}
						okAll = false
						continue
					}
					if !inModule(fn) {
						continue // fmt, panic helpers: no effect on the polynomials
					}
					v, ok := lookup(fn)
					if !ok || len(call.Args) == 0 {
						okAll = false
						continue
					}
					sawCall = true
					// the callee's output operand: its last polynomial/vector parameter (twiddle tables excepted)
					oi := len(call.Args) - 1
					if fs, ok := fn.Type().(*types.Signature); ok {
						for k := fs.Params().Len() - 1; k >= 0; k-- {
							pv := fs.Params().At(k)
							if strings.Contains(strings.ToLower(pv.Name()), "root") {
								continue
							}
							t := pv.Type()
							isVec := false
							if sl, ok := t.Underlying().(*types.Slice); ok && isUint64(sl.Elem()) {
								isVec = true
							} else if nm := namedOf(t); nm != nil && nm.Obj().Name() == "Poly" {
								isVec = true
							}
							if isVec {
								oi = k
								break
							}
						}
					}
					if oi >= len(call.Args) {
						oi = len(call.Args) - 1
					}
					st[exprString(call.Args[oi])] = v
				case *ast.IfStmt:
					a := block(x.Body.List, cp(st))
					b := cp(st)
					if x.Else != nil {
						switch e := x.Else.(type) {
						case *ast.BlockStmt:
							b = block(e.List, b)
						case *ast.IfStmt:
							b = block([]ast.Stmt{e}, b)
						}
					}
					st = joinM(a, b)
				case *ast.ForStmt:
					st = joinM(st, block(x.Body.List, cp(st)))
				case *ast.RangeStmt:
					st = joinM(st, block(x.Body.List, cp(st)))
				case *ast.BlockStmt:
					st = block(x.List, st)
				case *ast.ReturnStmt:
					if len(x.Results) != 0 {
						okAll = false
					}
				case *ast.AssignStmt:
					// definitions of non-numeric helpers (views, sub-rings) are harmless; arithmetic is not forwarding
					for _, r := range x.Rhs {
						if isUint64(info.TypeOf(r)) {
							okAll = false
						}
					}
				case *ast.DeclStmt:
				default:
					okAll = false
				}
			}
			return st
		}
		st := block(d.fd.Body.List, map[string]qitv{})
		if !okAll || !sawCall {
			return qTop, false
		}
		// the output of the function: its last parameter (or the receiver-less convention p1, p2 -> p2)
		var last types.Object
		if ps := d.fn.Type().(*types.Signature).Params(); ps.Len() > 0 {
			last = ps.At(ps.Len() - 1)
		}
		r := qBot
		for k, v := range st {
			ex, err := parser.ParseExpr(k)
			if err != nil {
				continue
			}
			if id := rootIdent(ex); id != nil && last != nil && id.Name == last.Name() {
				r = r.join(v)
			}
		}
		return r, !r.bot
	}
	for iter := 0; iter < 6; iter++ {
		changed := false
		for _, d := range all {
			if _, ok := known[d.fn]; ok {
				continue
			}
			v, ok := analyse(d)
			if !ok {
				continue
			}
			if old, had := derived[d.fn]; !had || !old.eq(v) {
				derived[d.fn] = v
				changed = true
			}
		}
		if !changed {
			break
		}
	}
	n := 0
	for _, d := range all {
		v, ok := derived[d.fn]
		if !ok {
			continue
		}
		fkey := core.FuncKey(d.pk, d.fd)
		key := "QRANGE:" + fkey
		doc := strings.ReplaceAll(docText(d.fd), "\n", " ")
		bound, contract := qaff{}, ""
		if m := qDocRange.FindStringSubmatch(doc); m != nil {
			k, _ := strconv.ParseInt(m[1], 10, 64)
			bound, contract = qaff{k, 0}, "documented range "+m[0]
		} else if !strings.Contains(d.fd.Name.Name, "Lazy") && d.fd.Name.IsExported() {
			bound, contract = qaff{1, -1}, "an operation that is not named Lazy returns fully reduced values"
			if ex, ok := qNonLazyExempt[d.fd.Name.Name]; ok {
				bound, contract = qaff{1, 0}, "exempted: "+ex
			}
		}
		if contract == "" || v.top {
			continue
		}
		n++
		if !qleq(v.hi, bound) {
			out = append(out, violOb("QRANGE", key, c.Rel(d.fd.Pos()), fmt.Sprintf("%s only forwards to operations that leave their output in %s, but promises at most %s (%s): a caller that relies on the stated range (lazy accumulation before one reduction) overflows", fkey, v, bound, contract)))
		} else {
			out = append(out, okOb("QRANGE", key, c.Rel(d.fd.Pos()), fmt.Sprintf("forwards to operations that leave their output in %s, within %s (%s)", v, bound, contract), true))
		}
	}
	c.Stats["qrange_forwarders"] += n
	return out
}

// ---------------------------------------------------------------------------------------------------------------------
// Part C: scalars in RNS form.

// scanQRangeScalars runs the functions of ring and ring/ringqp that compute on RNSScalar values (one residue per
// modulus, each handled under its own modulus in a loop over the sub-rings). Operands are assumed reduced; no
// subtraction may wrap, and the residues stored into an RNSScalar parameter or result are reduced unless the function is
// named Lazy (residues that are not computed by the modelled arithmetic — big.Int conversions, exponentiations — are
// left to RNSSTORE).
func scanQRangeScalars(c *core.Ctx) []ob {
	var out []ob
	n := 0
	isScalar := func(t types.Type) bool {
		nm := namedOf(t)
		return nm != nil && nm.Obj().Name() == "RNSScalar"
	}
	for _, pk := range c.Pkgs {
		if sp := core.ShortPkg(pk.PkgPath); !(c.IsFixture || sp == "ring") {
			continue
		}
		info := pk.TypesInfo
		decl := map[*types.Func]*ast.FuncDecl{}
		for _, f := range pk.Syntax {
			for _, d := range f.Decls {
				if fd, ok := d.(*ast.FuncDecl); ok && fd.Body != nil {
					if o, ok := info.Defs[fd.Name].(*types.Func); ok {
						decl[o] = fd
					}
				}
			}
		}
		for _, f := range pk.Syntax {
			if fileIsTestSupport(c.Program, f.Pos()) {
				continue
			}
			for _, d := range f.Decls {
				fd, ok := d.(*ast.FuncDecl)
				if !ok || fd.Body == nil {
					continue
				}
				var scalars []*ast.Ident
				for _, fl := range fd.Type.Params.List {
					for _, nm := range fl.Names {
						if isScalar(info.TypeOf(nm)) {
							scalars = append(scalars, nm)
						}
					}
				}
				if len(scalars) == 0 {
					continue
				}
				fkey := core.FuncKey(pk, fd)
				key := "QRANGE:" + fkey + "#scalars"
				q := &qInterp{c: c, info: info, decls: decl, cells: map[string]qitv{}}
				fr := newQFrame()
				for _, s := range scalars {
					fr.sym[info.Defs[s]] = s.Name
					q.cells[s.Name] = qbelow(1)
				}
				for _, fl := range fd.Type.Params.List {
					for _, nm := range fl.Names {
						if isUint64(info.TypeOf(nm)) {
							fr.u[info.Defs[nm]] = qTop
						}
					}
				}
				q.block(fr, fd.Body.List)
				n++
				bad := false
				for _, p := range q.probs {
					bad = true
					out = append(out, violOb("QRANGE", key+"#"+p.kind+":"+qProblemSite(p.msg), c.Rel(p.pos), fmt.Sprintf("%s (in %s, RNS scalar operands assumed reduced)", p.msg, fkey)))
				}
				if !strings.Contains(fd.Name.Name, "Lazy") {
					bound := qaff{1, -1}
					if strings.HasPrefix(fd.Name.Name, "Neg") {
						bound = qaff{1, 0} // q - 0 = q, as SubRing.Neg
					}
					for _, s := range q.stores {
						if s.v.top || s.v.bot || qleq(s.v.hi, bound) {
							continue
						}
						bad = true
						out = append(out, violOb("QRANGE", key+"#range:"+s.sym, c.Rel(s.pos), fmt.Sprintf("%s stores residues in %s into the RNS scalar %s: the functions that consume RNS scalars (SubRNSScalar's `s1 + q - s2`, NegRNSScalar's `q - s1`) take residues in [0, q-1] and wrap around for larger ones, and the function is not named Lazy", fkey, s.v, s.sym)))
						break
					}
				}
				if !bad {
					out = append(out, okOb("QRANGE", key, c.Rel(fd.Pos()), "no subtraction of residues can wrap; the residues computed by ring arithmetic and stored into RNS scalars are reduced", true))
				}
			}
		}
	}
	c.Stats["qrange_scalars"] += n
	return out
}
