package rules

import (
	"fmt"
	"go/ast"
	"go/token"
	"go/types"
	"strings"

	"golang.org/x/tools/go/packages"

	"lvcheck/internal/core"
)

// FIRSTITER — an accumulator that the first iteration of a loop initialises is initialised when there is no iteration.
//
// The evaluators accumulate into scratch or output polynomials with the idiom
//
//	for i, k := range keys { if i == 0 { D = f(...) } else { D += f(...) } }
//
// which leaves D untouched when `keys` is empty. When the ranged collection is a local that the function itself
// computed (a filtered or re-sliced list: its emptiness is a property of the input, e.g. a matrix whose only diagonal
// is 0), the function has to deal with the empty case: a test of len(keys) before the loop (returning, or writing D),
// the loop nested under `len(keys) > 0`, or an unconditional write of D before the loop. Otherwise whatever D held
// before is used as the sum.
func scanFirstIter(c *core.Ctx) []ob {
	var out []ob
	n := 0
	c.FuncDecls(func(pk *packages.Package, file *ast.File, fd *ast.FuncDecl) {
		if fd.Body == nil || fileIsTestSupport(c.Program, fd.Pos()) || inExamples(pk) {
			return
		}
		info := pk.TypesInfo
		fkey := core.FuncKey(pk, fd)
		pm := parentMapCached(fd)
		ord := 0
		ast.Inspect(fd.Body, func(x ast.Node) bool {
			rs, ok := x.(*ast.RangeStmt)
			if !ok || rs.Key == nil {
				return true
			}
			kid, ok := rs.Key.(*ast.Ident)
			if !ok || kid.Name == "_" {
				return true
			}
			sid, ok := unparen(rs.X).(*ast.Ident)
			if !ok {
				return true
			}
			sobj := info.Uses[sid]
			sv, isVar := sobj.(*types.Var)
			if !isVar {
				return true
			}
			if _, isSlice := sv.Type().Underlying().(*types.Slice); !isSlice {
				return true
			}
			kobj := info.Defs[kid]
			// first-iteration arms in the loop body (not nested in an inner loop)
			var dsts []string
			ast.Inspect(rs.Body, func(y ast.Node) bool {
				switch z := y.(type) {
				case *ast.ForStmt, *ast.RangeStmt, *ast.FuncLit:
					return false
				case *ast.IfStmt:
					be, ok := unparen(z.Cond).(*ast.BinaryExpr)
					if ok && be.Op == token.EQL && z.Else == nil && len(z.Body.List) == 1 {
						// the operation itself is selected by the first-iteration test: `acc := r.MulThenAdd; if i == 0 { acc = r.Mul }`
						// followed by acc(…, D) — the same idiom with the two arms folded into a function value
						if as, ok := z.Body.List[0].(*ast.AssignStmt); ok && as.Tok == token.ASSIGN && len(as.Lhs) == 1 {
							cx, cy := unparen(be.X), unparen(be.Y)
							if _, litFirst := cx.(*ast.BasicLit); litFirst {
								cx, cy = cy, cx
							}
							id, ok1 := cx.(*ast.Ident)
							lit, ok2 := cy.(*ast.BasicLit)
							fid, ok3 := as.Lhs[0].(*ast.Ident)
							if ok1 && ok2 && ok3 && lit.Value == "0" && info.Uses[id] == kobj {
								if fv, ok := info.Uses[fid].(*types.Var); ok {
									if _, isFn := fv.Type().Underlying().(*types.Signature); isFn {
										ast.Inspect(rs.Body, func(w ast.Node) bool {
											if call, ok := w.(*ast.CallExpr); ok && len(call.Args) > 0 {
												if cid, ok := unparen(call.Fun).(*ast.Ident); ok && info.Uses[cid] == types.Object(fv) {
													dsts = append(dsts, exprString(call.Args[len(call.Args)-1]))
												}
											}
											return true
										})
									}
								}
							}
						}
						return true
					}
					if !ok || (be.Op != token.EQL && be.Op != token.NEQ && be.Op != token.GTR) || z.Else == nil {
						return true
					}
					// i == 0 / 0 == i select the first iteration in the then-arm, i != 0 / i > 0 in the else-arm
					cx, cy := unparen(be.X), unparen(be.Y)
					if _, litFirst := cx.(*ast.BasicLit); litFirst && be.Op != token.GTR {
						cx, cy = cy, cx
					}
					id, ok := cx.(*ast.Ident)
					lit, ok2 := cy.(*ast.BasicLit)
					if !ok || !ok2 || lit.Value != "0" || info.Uses[id] != kobj {
						return true
					}
					var firstArm, otherArm ast.Node = z.Body, z.Else
					if be.Op != token.EQL {
						firstArm, otherArm = z.Else, z.Body
					}
					// destinations written in the first-iteration arm and accumulated in the other
					first := map[string]bool{}
					for _, w := range collectWrites(info, firstArm) {
						first[exprString(w.target)] = true
					}
					for _, w := range collectWrites(info, otherArm) {
						if t := exprString(w.target); first[t] {
							dsts = append(dsts, t)
						}
					}
				}
				return true
			})
			if len(dsts) == 0 {
				return true
			}
			ord++
			n++
			key := fmt.Sprintf("FIRSTITER:%s#range(%s)%d", fkey, sid.Name, ord)
			props := metaProps(fkey)
			// is the ranged slice a parameter used as is? then emptiness is the caller's contract — not decided here
			isParam := false
			if fd.Type.Params != nil {
				for _, f := range fd.Type.Params.List {
					for _, nm := range f.Names {
						if info.Defs[nm] == sobj {
							isParam = true
						}
					}
				}
			}
			reassigned := false
			ast.Inspect(fd.Body, func(y ast.Node) bool {
				if as, ok := y.(*ast.AssignStmt); ok && as.Pos() < rs.Pos() {
					for _, l := range as.Lhs {
						if id, ok := unparen(l).(*ast.Ident); ok && (info.Uses[id] == sobj || info.Defs[id] == sobj) {
							reassigned = true
						}
					}
				}
				return true
			})
			if isParam && !reassigned {
				out = append(out, withProps(okOb("FIRSTITER", key, c.Rel(rs.Pos()), "the ranged slice is a parameter used as given: its non-emptiness is the caller's contract", false), props...))
				return true
			}
			// guards
			lenTest := func(cond ast.Expr) bool {
				found := false
				ast.Inspect(cond, func(y ast.Node) bool {
					if call, ok := y.(*ast.CallExpr); ok && isBuiltinCall(info, call, "len") && len(call.Args) == 1 {
						if id, ok := unparen(call.Args[0]).(*ast.Ident); ok && info.Uses[id] == sobj {
							found = true
						}
					}
					return true
				})
				return found
			}
			guarded := ""
			// (a) nested under a len test
			for p := pm[ast.Node(rs)]; p != nil; p = pm[p] {
				if is, ok := p.(*ast.IfStmt); ok && lenTest(is.Cond) {
					guarded = "the loop is nested under a test of len(" + sid.Name + ")"
				}
			}
			// (b) a preceding statement in an enclosing block tests len(S), or writes a destination unconditionally
			if guarded == "" {
				var child ast.Node = rs
				for p := pm[child]; p != nil && guarded == ""; child, p = p, pm[p] {
					blk, ok := p.(*ast.BlockStmt)
					if !ok {
						continue
					}
					for _, st := range blk.List {
						if st == child {
							break
						}
						if is, ok := st.(*ast.IfStmt); ok && lenTest(is.Cond) {
							guarded = "a preceding statement tests len(" + sid.Name + ")"
						}
						if _, isIf := st.(*ast.IfStmt); !isIf {
							for _, w := range collectWrites(info, st) {
								for _, d := range dsts {
									if exprString(w.target) == d {
										guarded = d + " is written before the loop"
									}
								}
							}
						}
					}
				}
			}
			if guarded != "" {
				out = append(out, withProps(okOb("FIRSTITER", key, c.Rel(rs.Pos()), guarded, true), props...))
			} else {
				out = append(out, withProps(violOb("FIRSTITER", key, c.Rel(rs.Pos()), fmt.Sprintf("%s initialises %s in the first iteration of `range %s`, a list it computes itself, and nothing handles the case where the list is empty: %s then keeps whatever it held before and is used as the result", fkey, strings.Join(dsts, ", "), sid.Name, strings.Join(dsts, ", "))), props...))
			}
			return true
		})
	})
	c.Stats["firstiter_loops"] = n
	return out
}

func init() {
	all := []string{"C04", "C11", "C12", "C13", "C20"}
	core.Register(&core.Rule{Name: "FIRSTITER", Props: all,
		Doc: "a loop `for i := range S` over a list the function computed, whose first iteration initialises an accumulator that later iterations add to, is preceded by a test of len(S), nested under one, or preceded by an unconditional write of the accumulator",
		Run: func(c *core.Ctx) []ob {
			out := scanFirstIter(c)
			for _, o := range core.Floor("FIRSTITER", nil, "first-iteration accumulator loops", c.Stats["firstiter_loops"], 1) {
				out = append(out, withProps(o, all...))
			}
			for _, o := range control(c, "FIRSTITER", scanFirstIter, "(fixEvaluator).SumSome") {
				out = append(out, withProps(o, all...))
			}
			return out
		}})
}
