package rules

import (
	"fmt"
	"go/ast"
	"go/constant"
	"go/token"
	"go/types"
	"os"
	"sort"
	"strings"

	"golang.org/x/tools/go/cfg"
	"golang.org/x/tools/go/packages"

	"lvcheck/internal/core"
)

// NTTDOM — a polynomial is never transformed into the domain it is already in.
//
// Every polynomial of the library is either in the coefficient domain or in the NTT (evaluation) domain; which one
// is a runtime fact recorded in the IsNTT flag of the element that owns it. The forward transform of a value that
// already is in the NTT domain, the inverse transform of a value that already is in the coefficient domain, the
// coefficient-domain automorphism of an NTT value (and vice versa) are all well-typed and all produce garbage.
//
// The rule is an abstract interpretation over go/cfg, per function, of the *domain* of each polynomial path
// (`ct.Value[0]`, `pt.Value`, a local poly, an alias `c0 := ct.Value[0]` resolved to what it views):
//
//	N            NTT domain
//	C            coefficient domain
//	S(x)         "whatever x.IsNTT says": the entry value of a polynomial owned by the parameter x, whose flag the
//	             function never assigns (the library-wide contract that the flag reflects the domain)
//	T            unknown
//
// Every abstract value remembers the branch facts under which it was produced (`n == 1`, `ct.IsNTT`, ...; only
// conditions over variables that are assigned once), joins are unions, and a value is considered at a use only when
// its facts do not contradict the facts that hold there, so that the two arms of `if ct.IsNTT {copy} else {NTT}`
// both give N and a value produced under `n == 1` is not considered under `n != 1`.
//
// Transfer: NTT/NTTLazy give N, INTT/INTTLazy give C, Copy/CopyLvl/CopyNew/copy give the domain of the source,
// an element-wise ring operation gives the domain of its first polynomial input with a known domain; any other call
// that may write a path (according to the write-effect summaries; any method called on it) makes it T.
// T never produces a report.
//
// Obligations: each NTT/INTT/Automorphism/AutomorphismNTT* call whose source has a known domain on some path, and
// each call passing a polynomial together with its `<name>IsNTT` flag as a literal.

type ndMember struct {
	kind  byte   // 'N','C','S','T'
	sym   string // for S: canonical path of the owner
	facts string // canonical "k=0;k=1" snapshot
}

func (m ndMember) enc() string { return string(m.kind) + ":" + m.sym + "@" + m.facts }

type ndState struct {
	facts map[string]bool
	env   map[string][]ndMember
}

func (s *ndState) clone() *ndState {
	n := &ndState{facts: make(map[string]bool, len(s.facts)), env: make(map[string][]ndMember, len(s.env))}
	for k, v := range s.facts {
		n.facts[k] = v
	}
	for k, v := range s.env {
		n.env[k] = v
	}
	return n
}

func factsString(f map[string]bool) string {
	ks := make([]string, 0, len(f))
	for k, v := range f {
		if v {
			ks = append(ks, k+"=1")
		} else {
			ks = append(ks, k+"=0")
		}
	}
	sort.Strings(ks)
	return strings.Join(ks, ";")
}

func (s *ndState) enc() string {
	ps := make([]string, 0, len(s.env))
	for p, ms := range s.env {
		es := make([]string, len(ms))
		for i, m := range ms {
			es[i] = m.enc()
		}
		ps = append(ps, p+"{"+strings.Join(es, ",")+"}")
	}
	sort.Strings(ps)
	return factsString(s.facts) + "|" + strings.Join(ps, " ")
}

func ndNorm(ms []ndMember) []ndMember {
	seen := map[string]bool{}
	var out []ndMember
	for _, m := range ms {
		e := m.enc()
		if !seen[e] {
			seen[e] = true
			out = append(out, m)
		}
	}
	sort.Slice(out, func(i, j int) bool { return out[i].enc() < out[j].enc() })
	if len(out) > 12 {
		return []ndMember{{kind: 'T'}}
	}
	return out
}

// ndMerge joins members that differ only in the value of one fact (the value does not depend on it).
func ndMerge(ms []ndMember) []ndMember {
	for changed := true; changed; {
		changed = false
	outer:
		for i := 0; i < len(ms); i++ {
			for j := i + 1; j < len(ms); j++ {
				a, b := ms[i], ms[j]
				if a.kind != b.kind || a.sym != b.sym || a.facts == b.facts {
					continue
				}
				fa, fb := strings.Split(a.facts, ";"), strings.Split(b.facts, ";")
				if len(fa) != len(fb) {
					continue
				}
				diff, at := 0, -1
				for k := range fa {
					if fa[k] != fb[k] {
						diff++
						at = k
					}
				}
				if diff != 1 || len(fa[at]) < 2 || len(fb[at]) < 2 || fa[at][:len(fa[at])-2] != fb[at][:len(fb[at])-2] {
					continue
				}
				if a.kind == 'S' && fa[at][:len(fa[at])-2] == a.sym+".IsNTT" {
					continue
				}
				rest := append(append([]string{}, fa[:at]...), fa[at+1:]...)
				ms[i] = ndMember{kind: a.kind, sym: a.sym, facts: strings.Join(rest, ";")}
				ms = append(ms[:j], ms[j+1:]...)
				changed = true
				break outer
			}
		}
	}
	return ms
}

type ndFunc struct {
	c      *core.Ctx
	pk     *packages.Package
	info   *types.Info
	fd     *ast.FuncDecl
	fkey   string
	eff    *effects
	nDefs  map[types.Object]int      // number of assignments (incl. definition) of each local object
	alias  map[types.Object]ast.Expr // single-definition locals viewing a path
	flagW  map[string]bool           // canonical owners whose IsNTT/MetaData is assigned in the function
	params map[types.Object]bool
	out    []ob
	seen   map[string]bool
}

// path canonicalises a storage expression: root identifier (aliases resolved) followed by .field and [k] / [i] steps.
func (f *ndFunc) path(e ast.Expr, depth int) (string, bool) {
	if depth > 6 {
		return "", false
	}
	switch x := unparen(e).(type) {
	case *ast.Ident:
		o := f.info.Uses[x]
		if o == nil {
			o = f.info.Defs[x]
		}
		if o == nil {
			return "", false
		}
		if _, ok := o.(*types.Var); !ok {
			return "", false
		}
		if rhs, ok := f.alias[o]; ok {
			return f.path(rhs, depth+1)
		}
		return x.Name, true
	case *ast.SelectorExpr:
		if _, ok := f.info.Selections[x]; !ok {
			return "", false // package-qualified
		}
		b, ok := f.path(x.X, depth)
		if !ok {
			return "", false
		}
		if x.Sel.Name == "MetaData" || x.Sel.Name == "Element" {
			return b, true // embedded: ct.MetaData.IsNTT is ct.IsNTT, ct.Element.Value is ct.Value
		}
		return b + "." + x.Sel.Name, true
	case *ast.IndexExpr:
		b, ok := f.path(x.X, depth)
		if !ok {
			return "", false
		}
		if tv, ok := f.info.Types[x.Index]; ok && tv.Value != nil && tv.Value.Kind() == constant.Int {
			return b + "[" + tv.Value.ExactString() + "]", true
		}
		if id, ok := unparen(x.Index).(*ast.Ident); ok {
			return b + "[" + id.Name + "]", true
		}
		return b + "[*]", true
	case *ast.SliceExpr:
		return f.path(x.X, depth)
	case *ast.StarExpr:
		return f.path(x.X, depth)
	case *ast.UnaryExpr:
		if x.Op == token.AND {
			return f.path(x.X, depth)
		}
	}
	return "", false
}

func ndRoot(p string) string {
	for i, r := range p {
		if r == '.' || r == '[' {
			return p[:i]
		}
	}
	return p
}

func ndOverlap(a, b string) bool {
	ca, cb := splitPath("."+a), splitPath("."+b)
	n := len(ca)
	if len(cb) < n {
		n = len(cb)
	}
	for i := 0; i < n; i++ {
		if ca[i] == cb[i] {
			continue
		}
		if ca[i][0] == '[' && cb[i][0] == '[' {
			da, db := ca[i][1] >= '0' && ca[i][1] <= '9', cb[i][1] >= '0' && cb[i][1] <= '9'
			if da && db {
				return false
			}
			continue
		}
		return false
	}
	return true
}

// ownerOf: for a path of the shape <owner>.Value[...]..., the owner when it is a parameter/receiver-rooted element
// carrying an IsNTT flag that the function never assigns.
func (f *ndFunc) ownerOf(p string) string {
	i := strings.Index(p, ".Value")
	if i < 0 {
		return ""
	}
	owner := p[:i]
	if f.flagW[owner] || f.flagW[ndRoot(owner)] {
		return ""
	}
	return owner
}

// initial domain of a path never touched so far in the function.
func (f *ndFunc) initial(p string, rootTypes map[string]types.Type) []ndMember {
	if strings.HasSuffix(p, ".#") {
		owner := strings.TrimSuffix(p, ".#")
		if t, ok := rootTypes[owner]; ok && hasIsNTT(t) {
			return []ndMember{{kind: 'S', sym: owner}}
		}
		return []ndMember{{kind: 'T'}}
	}
	owner := f.ownerOf(p)
	if owner == "" {
		return []ndMember{{kind: 'T'}}
	}
	t, ok := rootTypes[owner]
	if !ok || !hasIsNTT(t) {
		return []ndMember{{kind: 'T'}}
	}
	return []ndMember{{kind: 'S', sym: owner}}
}

func hasIsNTT(t types.Type) bool {
	if t == nil {
		return false
	}
	o, _, _ := types.LookupFieldOrMethod(t, true, nil, "IsNTT")
	v, ok := o.(*types.Var)
	if !ok || !v.IsField() {
		return false
	}
	b, ok := v.Type().Underlying().(*types.Basic)
	return ok && b.Kind() == types.Bool
}

func isPolyLike(t types.Type) bool {
	if t == nil {
		return false
	}
	t = deref(t)
	if n := namedOf(t); n != nil && n.Obj().Name() == "Poly" {
		return true
	}
	if sl, ok := t.Underlying().(*types.Slice); ok {
		if b, ok := sl.Elem().Underlying().(*types.Basic); ok && b.Kind() == types.Uint64 {
			return true
		}
	}
	return false
}

func isRingRecv(fn *types.Func) bool {
	sig, ok := fn.Type().(*types.Signature)
	if !ok || sig.Recv() == nil {
		return false
	}
	n := namedOf(sig.Recv().Type())
	if n == nil {
		return false
	}
	switch n.Obj().Name() {
	case "Ring", "SubRing":
		return true
	}
	return false
}

var ndRequire = map[string]byte{
	"NTT": 'C', "NTTLazy": 'C', "INTT": 'N', "INTTLazy": 'N',
	"Automorphism":                        'C',
	"AutomorphismNTT":                     'N',
	"AutomorphismNTTWithIndex":            'N',
	"AutomorphismNTTWithIndexThenAddLazy": 'N',
	"AutomorphismNTTWithIndexThenAdd":     'N',
}

// ndExempt: sites reported by the rule that were confirmed unreachable by reading, one line of reason each.
var ndExempt = map[string]string{
	"NTTDOM:core/rlwe.(Encryptor).addPtToCt#NTT(pt.Value)":  "the only caller (Encryptor.Encrypt) copies the plaintext's metadata into the ciphertext first, so pt.IsNTT == ct.IsNTT and the mixed-domain arms are dead code",
	"NTTDOM:core/rlwe.(Encryptor).addPtToCt#INTT(pt.Value)": "the only caller (Encryptor.Encrypt) copies the plaintext's metadata into the ciphertext first, so pt.IsNTT == ct.IsNTT and the mixed-domain arms are dead code",
}

var ndPure = map[string]bool{"Level": true, "LevelQ": true, "LevelP": true, "Degree": true, "N": true, "Equal": true,
	"BinarySize": true, "LogN": true, "LogDimensions": true, "Slots": true, "LogSlots": true, "LogScale": true}

func scanNTTDom(c *core.Ctx) []ob {
	var out []ob
	eff := effFor(c)
	sites := 0
	c.FuncDecls(func(pk *packages.Package, file *ast.File, fd *ast.FuncDecl) {
		if fd.Body == nil || fileIsTestSupport(c.Program, fd.Pos()) || inExamples(pk) {
			return
		}
		// only functions that transform something
		has := false
		ast.Inspect(fd.Body, func(n ast.Node) bool {
			if call, ok := n.(*ast.CallExpr); ok {
				if fn := calleeFunc(pk.TypesInfo, call); fn != nil {
					if _, ok := ndRequire[fn.Name()]; ok && isRingRecv(fn) {
						has = true
					}
					if ndFlagParam(fn) >= 0 {
						has = true
					}
				}
			}
			return !has
		})
		if !has {
			return
		}
		f := &ndFunc{c: c, pk: pk, info: pk.TypesInfo, fd: fd, fkey: core.FuncKey(pk, fd), eff: eff, seen: map[string]bool{}}
		f.run()
		out = append(out, f.out...)
		sites += len(f.out)
	})
	c.Stats["nttdom_sites"] += sites
	return out
}

// ndFlagParam: index of a bool parameter named <x>IsNTT paired with a polynomial parameter <x>, else -1.
func ndFlagParam(fn *types.Func) int {
	sig, ok := fn.Type().(*types.Signature)
	if !ok {
		return -1
	}
	for i := 0; i < sig.Params().Len(); i++ {
		p := sig.Params().At(i)
		if !strings.HasSuffix(p.Name(), "IsNTT") || p.Name() == "IsNTT" {
			continue
		}
		if b, ok := p.Type().Underlying().(*types.Basic); !ok || b.Kind() != types.Bool {
			continue
		}
		base := strings.TrimSuffix(p.Name(), "IsNTT")
		for j := 0; j < sig.Params().Len(); j++ {
			if sig.Params().At(j).Name() == base && isPolyLike(sig.Params().At(j).Type()) {
				return i
			}
		}
	}
	return -1
}

func (f *ndFunc) prepare() map[string]types.Type {
	f.nDefs = map[types.Object]int{}
	f.alias = map[types.Object]ast.Expr{}
	f.flagW = map[string]bool{}
	f.params = map[types.Object]bool{}
	rootTypes := map[string]types.Type{}
	addParam := func(fl *ast.FieldList) {
		if fl == nil {
			return
		}
		for _, fld := range fl.List {
			for _, nm := range fld.Names {
				if o := f.info.Defs[nm]; o != nil {
					f.params[o] = true
					f.nDefs[o] = 0
					rootTypes[nm.Name] = o.Type()
				}
			}
		}
	}
	addParam(f.fd.Recv)
	addParam(f.fd.Type.Params)
	cand := map[types.Object]ast.Expr{}
	def := func(lhs ast.Expr, rhs ast.Expr) {
		id, ok := unparen(lhs).(*ast.Ident)
		if !ok {
			return
		}
		o := f.info.Defs[id]
		if o == nil {
			o = f.info.Uses[id]
		}
		if o == nil {
			return
		}
		f.nDefs[o]++
		if rhs != nil {
			cand[o] = rhs
		} else {
			delete(cand, o)
			f.nDefs[o]++ // unknown shape: never an alias
		}
	}
	ast.Inspect(f.fd.Body, func(n ast.Node) bool {
		switch x := n.(type) {
		case *ast.AssignStmt:
			if len(x.Lhs) == len(x.Rhs) {
				for i := range x.Lhs {
					if x.Tok == token.ASSIGN || x.Tok == token.DEFINE {
						def(x.Lhs[i], x.Rhs[i])
					} else {
						def(x.Lhs[i], nil)
					}
				}
			} else {
				for i := range x.Lhs {
					def(x.Lhs[i], nil)
				}
			}
		case *ast.IncDecStmt:
			def(x.X, nil)
		case *ast.RangeStmt:
			if x.Key != nil {
				def(x.Key, nil)
			}
			if x.Value != nil {
				def(x.Value, nil)
			}
		case *ast.ValueSpec:
			for i, nm := range x.Names {
				if i < len(x.Values) && len(x.Values) == len(x.Names) {
					def(nm, x.Values[i])
				} else {
					def(nm, nil)
				}
			}
		case *ast.UnaryExpr:
			if x.Op == token.AND {
				// address taken of a plain local: may be written behind our back
				if id, ok := unparen(x.X).(*ast.Ident); ok {
					if o := f.info.Uses[id]; o != nil && !f.params[o] {
						if b, ok := o.Type().Underlying().(*types.Basic); ok && b.Info()&(types.IsInteger|types.IsBoolean) != 0 {
							f.nDefs[o] += 2
						}
					}
				}
			}
		}
		return true
	})
	// aliases: single definition whose right-hand side is itself a path over stable roots; iterate for chains
	for iter := 0; iter < 4; iter++ {
		for o, rhs := range cand {
			if f.nDefs[o] != 1 || f.params[o] {
				continue
			}
			if _, done := f.alias[o]; done {
				continue
			}
			if !ndIsPathExpr(rhs) {
				continue
			}
			// only views alias what they are defined from; a struct or scalar copied by value does not
			// (a copied flag `b := x.IsNTT` is kept: it stands for the flag as long as nobody assigns it)
			if t := o.Type(); t != nil {
				switch u := t.Underlying().(type) {
				case *types.Pointer, *types.Slice, *types.Map:
				case *types.Basic:
					if u.Kind() != types.Bool {
						continue
					}
				default:
					if !isPolyLike(t) {
						continue
					}
				}
			}
			p, ok := f.path(rhs, 0)
			if !ok {
				continue
			}
			_ = p
			// the root must be stable
			rid := ndRootIdent(rhs)
			if rid == nil {
				continue
			}
			ro := f.info.Uses[rid]
			if ro == nil || (f.nDefs[ro] > 1) || (f.nDefs[ro] == 0 && !f.params[ro]) {
				if _, isAlias := f.alias[ro]; !isAlias {
					continue
				}
			}
			f.alias[o] = rhs
		}
	}
	for o := range f.nDefs {
		if _, isAlias := f.alias[o]; !isAlias && !f.params[o] {
			if v, ok := o.(*types.Var); ok {
				rootTypes[v.Name()] = v.Type()
			}
		}
	}
	// owners whose flag is assigned
	ast.Inspect(f.fd.Body, func(n ast.Node) bool {
		as, ok := n.(*ast.AssignStmt)
		if !ok {
			return true
		}
		for _, l := range as.Lhs {
			l = unparen(l)
			if st, ok := l.(*ast.StarExpr); ok {
				l = unparen(st.X)
			}
			se, ok := l.(*ast.SelectorExpr)
			if !ok {
				if id, ok := l.(*ast.Ident); ok {
					// whole-object rebinding of a parameter
					if o := f.info.Uses[id]; o != nil && f.params[o] {
						f.flagW[id.Name] = true
					}
				}
				continue
			}
			if se.Sel.Name == "IsNTT" || se.Sel.Name == "MetaData" {
				if p, ok := f.path(se.X, 0); ok {
					f.flagW[p] = true
				}
			}
		}
		return true
	})
	// types of owners reached through fields (x.ct.Value): resolved lazily through the expression types
	return rootTypes
}

func ndIsPathExpr(e ast.Expr) bool {
	switch x := unparen(e).(type) {
	case *ast.Ident:
		return x.Name != "nil" && x.Name != "true" && x.Name != "false"
	case *ast.SelectorExpr:
		return ndIsPathExpr(x.X)
	case *ast.IndexExpr:
		return ndIsPathExpr(x.X)
	case *ast.SliceExpr:
		return ndIsPathExpr(x.X)
	case *ast.StarExpr:
		return ndIsPathExpr(x.X)
	case *ast.UnaryExpr:
		return x.Op == token.AND && ndIsPathExpr(x.X)
	}
	return false
}

func ndRootIdent(e ast.Expr) *ast.Ident {
	for {
		switch x := unparen(e).(type) {
		case *ast.Ident:
			return x
		case *ast.SelectorExpr:
			e = x.X
		case *ast.IndexExpr:
			e = x.X
		case *ast.SliceExpr:
			e = x.X
		case *ast.StarExpr:
			e = x.X
		case *ast.UnaryExpr:
			e = x.X
		default:
			return nil
		}
	}
}

// stableCond: every variable mentioned is assigned at most once (parameters: never).
func (f *ndFunc) stableCond(e ast.Expr) bool {
	ok := true
	ast.Inspect(e, func(n ast.Node) bool {
		switch x := n.(type) {
		case *ast.Ident:
			o := f.info.Uses[x]
			if v, isVar := o.(*types.Var); isVar && !v.IsField() {
				if v.Pkg() != f.pk.Types || v.Parent() == f.pk.Types.Scope() {
					return true
				}
				if f.params[o] {
					if f.nDefs[o] > 0 {
						ok = false
					}
				} else if f.nDefs[o] > 1 {
					ok = false
				}
			}
		case *ast.FuncLit:
			ok = false
		}
		return ok
	})
	return ok
}

// condFact normalises an atomic branch condition into (key, value-when-true).
func (f *ndFunc) condFact(e ast.Expr) (string, bool, bool) {
	e = unparen(e)
	val := true
	for {
		u, ok := e.(*ast.UnaryExpr)
		if !ok || u.Op != token.NOT {
			break
		}
		val = !val
		e = unparen(u.X)
	}
	if !f.stableCond(e) {
		return "", false, false
	}
	// the value of a case clause of a tagged switch stands for tag == value
	pm := parentMapCached(f.fd)
	if cc, ok := pm[ast.Node(e)].(*ast.CaseClause); ok {
		if blk, ok := pm[ast.Node(cc)].(*ast.BlockStmt); ok {
			if sw, ok := pm[ast.Node(blk)].(*ast.SwitchStmt); ok && sw.Tag != nil {
				if !f.stableCond(sw.Tag) {
					return "", false, false
				}
				e = &ast.BinaryExpr{X: sw.Tag, Op: token.EQL, Y: e}
			}
		}
	}
	if tv, ok := f.info.Types[e]; ok && tv.Value != nil {
		return "", false, false // constant
	}
	// x == true, x != false, ... are x / !x
	for {
		be, ok := e.(*ast.BinaryExpr)
		if !ok || (be.Op != token.EQL && be.Op != token.NEQ) {
			break
		}
		var other ast.Expr
		var lit string
		if id, ok := unparen(be.Y).(*ast.Ident); ok && (id.Name == "true" || id.Name == "false") {
			other, lit = be.X, id.Name
		} else if id, ok := unparen(be.X).(*ast.Ident); ok && (id.Name == "true" || id.Name == "false") {
			other, lit = be.Y, id.Name
		} else {
			break
		}
		if (lit == "false") != (be.Op == token.NEQ) {
			val = !val
		}
		e = unparen(other)
		for {
			u, ok := e.(*ast.UnaryExpr)
			if !ok || u.Op != token.NOT {
				break
			}
			val = !val
			e = unparen(u.X)
		}
	}
	if be, ok := e.(*ast.BinaryExpr); ok {
		switch be.Op {
		case token.NEQ:
			return f.canonExpr(be.X) + " == " + f.canonExpr(be.Y), !val, true
		case token.EQL:
			return f.canonExpr(be.X) + " == " + f.canonExpr(be.Y), val, true
		case token.GEQ: // a >= b  is  !(a < b)
			return f.canonExpr(be.X) + " < " + f.canonExpr(be.Y), !val, true
		case token.LEQ: // a <= b  is  !(a > b)
			return f.canonExpr(be.X) + " > " + f.canonExpr(be.Y), !val, true
		case token.LSS, token.GTR:
			return f.canonExpr(be.X) + " " + be.Op.String() + " " + f.canonExpr(be.Y), val, true
		}
	}
	return f.canonExpr(e), val, true
}

func (f *ndFunc) canonExpr(e ast.Expr) string {
	if ndIsPathExpr(e) {
		if p, ok := f.path(e, 0); ok {
			return p
		}
	}
	return exprString(e)
}

func ndFeasible(m ndMember, facts map[string]bool) bool {
	if m.facts == "" {
		return true
	}
	for _, kv := range strings.Split(m.facts, ";") {
		k, v := kv[:len(kv)-2], kv[len(kv)-1] == '1'
		if cur, ok := facts[k]; ok && cur != v {
			return false
		}
	}
	return true
}

func ndMemberFact(m ndMember, key string) (bool, bool) {
	if m.facts == "" {
		return false, false
	}
	for _, kv := range strings.Split(m.facts, ";") {
		if kv[:len(kv)-2] == key {
			return kv[len(kv)-1] == '1', true
		}
	}
	return false, false
}

// resolve: 'N', 'C' or 0 (unknown) of a member under the current facts.
func ndResolve(m ndMember, facts map[string]bool) byte {
	switch m.kind {
	case 'N', 'C':
		return m.kind
	case 'S':
		key := m.sym + ".IsNTT"
		v, ok := facts[key]
		if !ok {
			v, ok = ndMemberFact(m, key)
		}
		if ok {
			if v {
				return 'N'
			}
			return 'C'
		}
	}
	return 0
}

func (f *ndFunc) run() {
	rootTypes := f.prepare()
	g := buildCFG(f.info, f.fd.Body)
	if len(g.Blocks) == 0 {
		return
	}
	// owner types through expression types: collect while walking
	ownerTypes := rootTypes
	ast.Inspect(f.fd.Body, func(n ast.Node) bool {
		se, ok := n.(*ast.SelectorExpr)
		if !ok || (se.Sel.Name != "Value" && se.Sel.Name != "IsNTT" && se.Sel.Name != "MetaData" && se.Sel.Name != "Copy") {
			return true
		}
		if p, ok := f.path(se.X, 0); ok {
			if tv, ok := f.info.Types[se.X]; ok {
				if _, have := ownerTypes[p]; !have {
					ownerTypes[p] = tv.Type
				}
			}
		}
		return true
	})
	// only parameter/receiver-rooted owners have a meaningful entry value
	isParamRoot := func(p string) bool {
		r := ndRoot(p)
		for o := range f.params {
			if o.Name() == r {
				return true
			}
		}
		return false
	}
	lookup := func(s *ndState, p string) []ndMember {
		if ms, ok := s.env[p]; ok {
			return ms
		}
		// an overlapping path has been written: unknown
		for q := range s.env {
			if q != p && ndOverlap(p, q) {
				return []ndMember{{kind: 'T'}}
			}
		}
		if !isParamRoot(p) {
			return []ndMember{{kind: 'T'}}
		}
		return f.initial(p, ownerTypes)
	}
	set := func(s *ndState, p string, ms []ndMember) {
		for q := range s.env {
			if q != p && ndOverlap(p, q) {
				s.env[q] = []ndMember{{kind: 'T'}}
			}
		}
		s.env[p] = ndNorm(ms)
	}
	kill := func(s *ndState, p string) { set(s, p, []ndMember{{kind: 'T'}}) }
	// stampF re-stamps members with the facts `attach` (a subset of `full`, the facts that hold where the value is
	// produced or through which it flows); members contradicted by `full` are dropped, symbols decided by it resolved.
	stampF := func(full, attach map[string]bool, ms []ndMember) []ndMember {
		var out []ndMember
		for _, m := range ms {
			if !ndFeasible(m, full) {
				continue
			}
			merged := map[string]bool{}
			for k, v := range attach {
				merged[k] = v
			}
			if m.facts != "" {
				for _, kv := range strings.Split(m.facts, ";") {
					merged[kv[:len(kv)-2]] = kv[len(kv)-1] == '1'
				}
			}
			if r := ndResolve(m, full); r != 0 {
				out = append(out, ndMember{kind: r, facts: factsString(merged)})
				continue
			}
			out = append(out, ndMember{kind: m.kind, sym: m.sym, facts: factsString(merged)})
		}
		if len(out) == 0 {
			out = []ndMember{{kind: 'T'}}
		}
		return out
	}
	stamp := func(s *ndState, ms []ndMember) []ndMember { return stampF(s.facts, s.facts, ms) }
	report := func(s *ndState, call *ast.CallExpr, what string, src ast.Expr, p string, need byte, record bool) {
		ms := lookup(s, p)
		decided, bad := false, false
		var badM ndMember
		for _, m := range ms {
			if !ndFeasible(m, s.facts) {
				continue
			}
			r := ndResolve(m, s.facts)
			if r == 0 {
				continue
			}
			decided = true
			if r != need {
				bad = true
				badM = m
			}
		}
		if !record || !decided {
			return
		}
		key := fmt.Sprintf("NTTDOM:%s#%s(%s)", f.fkey, what, exprString(src))
		dom := map[byte]string{'N': "NTT", 'C': "coefficient"}
		if why, ok := ndExempt[key]; ok && bad {
			if !f.seen[key] {
				f.seen[key] = true
				f.out = append(f.out, withProps(okOb("NTTDOM", key, f.c.Rel(call.Pos()), "exempt: "+why, false), flagNestProps(f.fkey)...))
			}
			return
		}
		if bad {
			if f.seen[key+"!"] {
				return
			}
			f.seen[key+"!"] = true
			under := factsString(s.facts)
			if under == "" {
				under = "no condition"
			}
			via := ""
			if badM.facts != "" {
				via = " on the path where " + badM.facts
			}
			origin := ""
			if badM.kind == 'S' {
				origin = fmt.Sprintf(" (it holds a value of %s, whose IsNTT flag says so)", badM.sym)
			}
			f.out = append(f.out, withProps(violOb("NTTDOM", key, f.c.Rel(call.Pos()),
				fmt.Sprintf("%s: %s expects a value in the %s domain, but %s is already in the %s domain%s%s [facts here: %s]",
					f.fkey, what, dom[need], exprString(src), dom[need^('N'^'C')], via, origin, under)), flagNestProps(f.fkey)...))
			return
		}
		if !f.seen[key] {
			f.seen[key] = true
			f.out = append(f.out, withProps(okOb("NTTDOM", key, f.c.Rel(call.Pos()), "source domain known and the one the transform expects", true), flagNestProps(f.fkey)...))
		}
	}

	var record bool
	var aliasTaint func(s *ndState, owner string, ms []ndMember, pos token.Pos)
	var ownerCheck func(s *ndState, pos token.Pos, owner, label string)
	var transferExpr func(s *ndState, n ast.Node)
	handleCall := func(s *ndState, call *ast.CallExpr) {
		// builtin copy(dst, src)
		if id, ok := unparen(call.Fun).(*ast.Ident); ok {
			if b, ok := f.info.Uses[id].(*types.Builtin); ok {
				if b.Name() == "copy" && len(call.Args) == 2 {
					dp, ok1 := f.path(call.Args[0], 0)
					sp, ok2 := f.path(call.Args[1], 0)
					if ok1 {
						if ok2 {
							set(s, dp, stamp(s, lookup(s, sp)))
						} else {
							kill(s, dp)
						}
					}
				}
				return
			}
		}
		fn := calleeFunc(f.info, call)
		var recvExpr ast.Expr
		if se, ok := unparen(call.Fun).(*ast.SelectorExpr); ok {
			if _, isSel := f.info.Selections[se]; isSel {
				recvExpr = se.X
			}
		}
		name := ""
		if fn != nil {
			name = fn.Name()
		}
		polyArgs := func() (idx []int) {
			for i, a := range call.Args {
				if tv, ok := f.info.Types[a]; ok && isPolyLike(tv.Type) {
					idx = append(idx, i)
				}
			}
			return
		}
		// transforms
		if fn != nil && isRingRecv(fn) {
			if need, ok := ndRequire[name]; ok {
				pa := polyArgs()
				if len(pa) >= 2 {
					srcE, dstE := call.Args[pa[0]], call.Args[pa[len(pa)-1]]
					if sp, ok := f.path(srcE, 0); ok {
						report(s, call, name, srcE, sp, need, record)
					}
					if dp, ok := f.path(dstE, 0); ok {
						var res []ndMember
						switch name {
						case "NTT", "NTTLazy":
							res = []ndMember{{kind: 'N', facts: factsString(s.facts)}}
						case "INTT", "INTTLazy":
							res = []ndMember{{kind: 'C', facts: factsString(s.facts)}}
						default:
							if strings.HasSuffix(name, "ThenAddLazy") || strings.HasSuffix(name, "ThenAdd") {
								return // accumulates into dst: unchanged
							}
							res = []ndMember{{kind: need, facts: factsString(s.facts)}}
						}
						set(s, dp, res)
					}
					return
				}
			}
			// element-wise operation: written polynomial arguments take the domain of the first known input
			pa := polyArgs()
			var sum *fnSummary
			if cs := f.eff.callees(f.info, call); len(cs) == 1 {
				sum = f.eff.sums[cs[0]]
			}
			if sum != nil && len(pa) >= 1 {
				var in []ndMember
				for _, i := range pa {
					if sum.wParams[i] {
						continue
					}
					if sp, ok := f.path(call.Args[i], 0); ok {
						ms := lookup(s, sp)
						known := false
						for _, m := range ms {
							if m.kind != 'T' {
								known = true
							}
						}
						if known {
							in = ms
							break
						}
					}
				}
				// two inputs of an element-wise operation are in the same domain
				if record {
					var ins [][]ndMember
					var exprs []ast.Expr
					for _, i := range pa {
						if sum.wParams[i] {
							continue
						}
						if sp, ok := f.path(call.Args[i], 0); ok {
							ins = append(ins, lookup(s, sp))
							exprs = append(exprs, call.Args[i])
						}
					}
					if len(ins) == 2 {
						f.mixCheck(s, call, name, exprs, ins)
					}
				}
				for _, i := range pa {
					if !sum.wParams[i] {
						continue
					}
					if dp, ok := f.path(call.Args[i], 0); ok {
						if in != nil {
							set(s, dp, stamp(s, in))
						} else {
							kill(s, dp)
						}
					}
				}
				return
			}
		}
		// copies: dst.Copy(src), dst.CopyLvl(l, src), CopyLvl(l.., src, dst)
		if fn != nil && (name == "Copy" || name == "CopyLvl") {
			pa := polyArgs()
			if recvExpr != nil && len(pa) == 1 {
				if tv, ok := f.info.Types[recvExpr]; ok && isPolyLike(tv.Type) {
					dp, ok1 := f.path(recvExpr, 0)
					sp, ok2 := f.path(call.Args[pa[0]], 0)
					if ok1 && ok2 {
						set(s, dp, stamp(s, lookup(s, sp)))
						return
					}
				}
			}
			if recvExpr == nil && len(pa) == 2 {
				sp, ok1 := f.path(call.Args[pa[0]], 0)
				dp, ok2 := f.path(call.Args[pa[1]], 0)
				if ok1 && ok2 {
					set(s, dp, stamp(s, lookup(s, sp)))
					return
				}
			}
		}
		// small-norm samplers produce (and add) coefficient-domain values
		if fn != nil && recvExpr != nil && (name == "Read" || name == "ReadAndAdd") && len(call.Args) == 1 && ndCoeffSampler(f.info, recvExpr) {
			if tv, ok := f.info.Types[call.Args[0]]; ok && isPolyLike(tv.Type) {
				if dp, ok := f.path(call.Args[0], 0); ok {
					if name == "ReadAndAdd" {
						report(s, call, "ReadAndAdd", call.Args[0], dp, 'C', record)
						return
					}
					set(s, dp, []ndMember{{kind: 'C', facts: factsString(s.facts)}})
					return
				}
			}
		}
		// element-level copy: values and flag
		if fn != nil && name == "Copy" && recvExpr != nil && len(call.Args) == 1 {
			tr, ok1 := f.info.Types[recvExpr]
			ta, ok2 := f.info.Types[call.Args[0]]
			if ok1 && ok2 && hasIsNTT(tr.Type) && hasIsNTT(ta.Type) {
				dp, okd := f.path(recvExpr, 0)
				sp, oks := f.path(call.Args[0], 0)
				if okd && oks {
					subs := []string{".Value[0]", ".Value[1]", ".Value[2]"}
					if o, _, _ := types.LookupFieldOrMethod(tr.Type, true, nil, "Value"); o != nil && isPolyLike(o.Type()) {
						subs = []string{".Value"}
					}
					vals := map[string][]ndMember{}
					for _, k := range append(subs, ".#") {
						vals[k] = stamp(s, lookup(s, sp+k))
					}
					kill(s, dp)
					for k, ms := range vals {
						s.env[dp+k] = ndNorm(ms)
					}
					aliasTaint(s, dp, vals[".#"], call.Pos())
					return
				}
			}
		}
		// <x>, <x>IsNTT pairs
		if fn != nil {
			if fi := ndFlagParam(fn); fi >= 0 && fi < len(call.Args) {
				sig := fn.Type().(*types.Signature)
				base := strings.TrimSuffix(sig.Params().At(fi).Name(), "IsNTT")
				for j := 0; j < sig.Params().Len() && j < len(call.Args); j++ {
					if sig.Params().At(j).Name() != base {
						continue
					}
					var need byte
					fa := unparen(call.Args[fi])
					if id, ok := fa.(*ast.Ident); ok && id.Name == "true" {
						need = 'N'
					} else if ok && id.Name == "false" {
						need = 'C'
					} else if ndIsPathExpr(fa) {
						if fp, ok := f.path(fa, 0); ok {
							if v, ok := s.facts[fp]; ok {
								if v {
									need = 'N'
								} else {
									need = 'C'
								}
							}
						}
					}
					if need != 0 {
						if sp, ok := f.path(call.Args[j], 0); ok {
							report(s, call, name+"/"+sig.Params().At(fi).Name(), call.Args[j], sp, need, record)
						}
					}
				}
			}
		}
		// an element handed to another function carries a flag that reflects its domain
		if record && fn != nil {
			for _, a := range call.Args {
				if tv, ok := f.info.Types[a]; ok && hasIsNTT(tv.Type) && ndIsPathExpr(a) {
					if ap, ok := f.path(a, 0); ok {
						ownerTypes[ap] = tv.Type
						ownerCheck(s, call.Pos(), ap, "arg:"+name)
					}
				}
			}
		}
		// anything else: written arguments and the receiver become unknown
		var sums []*fnSummary
		resolved := false
		if cs := f.eff.callees(f.info, call); len(cs) > 0 {
			resolved = true
			for _, cf := range cs {
				if sm := f.eff.sums[cf]; sm != nil {
					sums = append(sums, sm)
				} else {
					resolved = false
				}
			}
		}
		for i, a := range call.Args {
			if fl, ok := unparen(a).(*ast.FuncLit); ok {
				f.killMentioned(s, fl, kill)
				continue
			}
			p, ok := f.path(a, 0)
			if !ok {
				continue
			}
			tv, ok := f.info.Types[a]
			if !ok || !storageType(tv.Type) {
				continue
			}
			w := !resolved
			for _, sm := range sums {
				if sm.wParams[i] {
					w = true
				}
				if fn != nil {
					if sig := fn.Type().(*types.Signature); sig.Variadic() && i >= sig.Params().Len()-1 && sm.wParams[sig.Params().Len()-1] {
						w = true
					}
				}
			}
			if w {
				kill(s, p)
			}
		}
		if recvExpr != nil && !ndPure[name] {
			if tv, ok := f.info.Types[recvExpr]; ok && storageType(tv.Type) {
				if p, ok := f.path(recvExpr, 0); ok {
					// a method of the ring/evaluator objects does not write its receiver's polynomials we track
					if _, tracked := s.env[p]; tracked || hasIsNTT(tv.Type) || isPolyLike(tv.Type) {
						kill(s, p)
					}
				}
			}
		}
	}
	transferExpr = func(s *ndState, n ast.Node) {
		// post-order over calls
		var calls []*ast.CallExpr
		ast.Inspect(n, func(x ast.Node) bool {
			switch y := x.(type) {
			case *ast.FuncLit:
				f.killMentioned(s, y, kill)
				return false
			case *ast.CallExpr:
				calls = append(calls, y)
			}
			return true
		})
		for i := len(calls) - 1; i >= 0; i-- {
			handleCall(s, calls[i])
		}
	}
	assignIdent := func(s *ndState, id *ast.Ident) {
		// paths indexed by / rooted at a reassigned variable start afresh
		for p := range s.env {
			if ndRoot(p) == id.Name || strings.Contains(p, "["+id.Name+"]") {
				delete(s.env, p)
				for q := range s.env {
					if ndOverlap(p, q) {
						s.env[p] = []ndMember{{kind: 'T'}}
						break
					}
				}
			}
		}
	}
	// the exit condition is demanded of the outputs only (inputs may be consumed as scratch)
	outNames := map[string]bool{}
	if fn, ok := f.info.Defs[f.fd.Name].(*types.Func); ok {
		sig := fn.Type().(*types.Signature)
		for i := range outputParams(sig) {
			outNames[sig.Params().At(i).Name()] = true
		}
	}
	ownerCheck = func(s *ndState, pos token.Pos, owner, label string) {
		if t, ok := ownerTypes[owner]; !ok || !hasIsNTT(t) {
			return
		}
		flags := lookup(s, owner+".#")
		for p, doms := range s.env {
			if !strings.HasPrefix(p, owner+".Value") {
				continue
			}
			decided := false
			var bad [2]ndMember
			isBad := false
			for _, d := range doms {
				if !ndFeasible(d, s.facts) {
					continue
				}
				for _, g := range flags {
					if !ndFeasible(g, s.facts) || !ndCompatible(d, g) {
						continue
					}
					both := map[string]bool{}
					for k, v := range s.facts {
						both[k] = v
					}
					for _, m := range []ndMember{d, g} {
						if m.facts != "" {
							for _, kv := range strings.Split(m.facts, ";") {
								both[kv[:len(kv)-2]] = kv[len(kv)-1] == '1'
							}
						}
					}
					rd, rg := ndResolve(d, both), ndResolve(g, both)
					if rd == 0 && rg == 0 && d.kind == 'S' && g.kind == 'S' && d.sym == g.sym {
						if d.sym != owner {
							decided = true
						}
						continue
					}
					if rd == 0 || rg == 0 {
						continue
					}
					decided = true
					if rd != rg {
						isBad = true
						bad = [2]ndMember{d, g}
					}
				}
			}
			if !decided {
				continue
			}
			key := fmt.Sprintf("NTTDOM:%s#%s(%s)", f.fkey, label, p)
			dom := map[byte]string{'N': "NTT", 'C': "coefficient"}
			if isBad {
				if !f.seen[key+"!"] {
					f.seen[key+"!"] = true
					both := map[string]bool{}
					for _, m := range []ndMember{bad[0], bad[1]} {
						if m.facts != "" {
							for _, kv := range strings.Split(m.facts, ";") {
								both[kv[:len(kv)-2]] = kv[len(kv)-1] == '1'
							}
						}
					}
					for k, v := range s.facts {
						both[k] = v
					}
					f.out = append(f.out, withProps(violOb("NTTDOM", key, f.c.Rel(pos),
						fmt.Sprintf("%s %s with %s in the %s domain while %s.IsNTT says %s (on the path where %s)",
							f.fkey, ndLabelVerb(label), p, dom[ndResolve(bad[0], both)], owner, dom[ndResolve(bad[1], both)], factsString(both))), flagNestProps(f.fkey)...))
				}
				continue
			}
			if !f.seen[key] && !f.seen[key+"!"] {
				f.seen[key] = true
				f.out = append(f.out, withProps(okOb("NTTDOM", key, f.c.Rel(pos), "the domain of the polynomial and the IsNTT flag of its owner agree on every decided path", true), flagNestProps(f.fkey)...))
			}
		}
	}
	exitCheck := func(s *ndState, ret *ast.ReturnStmt) {
		owners := map[string]bool{}
		for p := range s.env {
			if i := strings.Index(p, ".Value"); i > 0 {
				owners[p[:i]] = true
			} else if strings.HasSuffix(p, ".#") {
				owners[strings.TrimSuffix(p, ".#")] = true
			}
		}
		for owner := range owners {
			if !isParamRoot(owner) || !outNames[ndRoot(owner)] {
				continue
			}
			ownerCheck(s, ret.Pos(), owner, "exit")
		}
	}
	// aliasTaint: the flag of the parameter-rooted element `owner` has been given the value ms; every other parameter
	// of the same pointer type may be the same object (out == in is the common way of calling these operations), so
	// that its flag has changed as well — unless the new value is that parameter's own flag, or the two are known to
	// be distinct here.
	aliasTaint = func(s *ndState, owner string, ms []ndMember, pos token.Pos) {
		if !isParamRoot(owner) || owner != ndRoot(owner) {
			return
		}
		var ownerObj types.Object
		for o := range f.params {
			if o.Name() == owner {
				ownerObj = o
			}
		}
		if ownerObj == nil {
			return
		}
		if _, isPtr := ownerObj.Type().(*types.Pointer); !isPtr {
			return
		}
		for o := range f.params {
			if o == ownerObj || !types.Identical(o.Type(), ownerObj.Type()) || !hasIsNTT(o.Type()) {
				continue
			}
			x := o.Name()
			own := len(ms) > 0
			for _, m := range ms {
				if !(m.kind == 'S' && m.sym == x) {
					own = false
				}
			}
			if own {
				continue
			}
			distinct := false
			for _, k := range []string{x + " == " + owner, owner + " == " + x} {
				if v, ok := s.facts[k]; ok && !v {
					distinct = true
				}
			}
			if distinct {
				continue
			}
			s.env[x+".#alias"] = []ndMember{{kind: 'A', sym: f.c.Rel(pos), facts: factsString(s.facts)}}
		}
	}
	rangeVars := map[*ast.Ident]bool{}
	ast.Inspect(f.fd.Body, func(n ast.Node) bool {
		if rs, ok := n.(*ast.RangeStmt); ok {
			if id, ok := rs.Key.(*ast.Ident); ok && id != nil {
				rangeVars[id] = true
			}
			if id, ok := rs.Value.(*ast.Ident); ok && id != nil {
				rangeVars[id] = true
			}
		}
		return true
	})
	transfer := func(n ast.Node, s0 *ndState) *ndState {
		s := s0.clone()
		if os.Getenv("LV_NDDEBUG") != "" && strings.Contains(f.fkey, os.Getenv("LV_NDDEBUG")) {
			fmt.Fprintf(os.Stderr, "ND %s rec=%v %T %s :: %s\n", f.c.Rel(n.Pos()), record, n, exprString0(n), s0.enc())
		}
		switch x := n.(type) {
		case *ast.AssignStmt:
			for _, r := range x.Rhs {
				transferExpr(s, r)
			}
			for i, l := range x.Lhs {
				transferExpr(s, l)
				if fp, kind := f.flagTarget(l); kind != 0 {
					ms := []ndMember{{kind: 'T'}}
					if len(x.Lhs) == len(x.Rhs) {
						if kind == 1 {
							ms = f.flagValue(x.Rhs[i], func(p string) []ndMember { return lookup(s, p) })
						} else {
							ms = f.metaValue(x.Rhs[i], func(p string) []ndMember { return lookup(s, p) })
						}
					}
					set(s, fp, stamp(s, ms))
					aliasTaint(s, strings.TrimSuffix(fp, ".#"), ms, x.Pos())
					continue
				}
				if id, ok := unparen(l).(*ast.Ident); ok {
					o := f.info.Defs[id]
					if o == nil {
						o = f.info.Uses[id]
					}
					if o != nil {
						if _, isAlias := f.alias[o]; isAlias {
							continue
						}
					}
					assignIdent(s, id)
					// md := *x.MetaData / md := MetaData{...}: a metadata value of its own
					if len(x.Lhs) == len(x.Rhs) && o != nil && hasIsNTT(o.Type()) {
						if _, isPtr := o.Type().Underlying().(*types.Pointer); !isPtr || true {
							ms := f.metaValue(x.Rhs[i], func(p string) []ndMember { return lookup(s, p) })
							s.env[id.Name+".#"] = ndNorm(stamp(s, ms))
						}
					}
					// x := y.CopyNew() / x = <path>
					if len(x.Lhs) == len(x.Rhs) && o != nil && isPolyLike(o.Type()) {
						r := unparen(x.Rhs[i])
						if call, ok := r.(*ast.CallExpr); ok {
							if se, ok := unparen(call.Fun).(*ast.SelectorExpr); ok && se.Sel.Name == "CopyNew" {
								if sp, ok := f.path(se.X, 0); ok {
									s.env[id.Name] = ndNorm(stamp(s, lookup(s, sp)))
								}
							}
						} else if ndIsPathExpr(r) {
							if sp, ok := f.path(r, 0); ok && sp != id.Name {
								// a view: not a stable alias (reassigned), so carry the domain and lose the link
								s.env[id.Name] = ndNorm(stamp(s, lookup(s, sp)))
							}
						}
					}
					continue
				}
				if p, ok := f.path(l, 0); ok {
					if tv, ok := f.info.Types[l]; ok && storageType(tv.Type) {
						if len(x.Lhs) == len(x.Rhs) && ndIsPathExpr(x.Rhs[i]) {
							if sp, ok := f.path(x.Rhs[i], 0); ok {
								set(s, p, stamp(s, lookup(s, sp)))
								continue
							}
						}
						kill(s, p)
					} else if _, isIdx := unparen(l).(*ast.IndexExpr); isIdx {
						// store of a coefficient: the polynomial it belongs to is now of unknown content
						if ie := unparen(l).(*ast.IndexExpr); true {
							if bp, ok := f.path(ie.X, 0); ok {
								kill(s, bp)
							}
						}
					}
				}
			}
			return s
		case *ast.IncDecStmt:
			if id, ok := unparen(x.X).(*ast.Ident); ok {
				assignIdent(s, id)
			}
			return s
		case *ast.RangeStmt:
			transferExpr(s, x.X)
			if id, ok := x.Key.(*ast.Ident); ok && id != nil {
				assignIdent(s, id)
			}
			if id, ok := x.Value.(*ast.Ident); ok && id != nil {
				assignIdent(s, id)
			}
			return s
		case *ast.DeferStmt, *ast.GoStmt:
			return s
		case *ast.ReturnStmt:
			for _, r := range x.Results {
				transferExpr(s, r)
			}
			if record && !f.errorReturn(x) {
				exitCheck(s, x)
			}
			return s
		case *ast.Ident:
			// go/cfg puts the key and value of a range loop into the loop header as bare expressions
			if rangeVars[x] {
				assignIdent(s, x)
				return s
			}
		}
		if cond, isExpr := n.(ast.Expr); isExpr && record {
			ast.Inspect(cond, func(y ast.Node) bool {
				se, ok := y.(*ast.SelectorExpr)
				if !ok || se.Sel.Name != "IsNTT" {
					return true
				}
				owner, ok := f.path(se.X, 0)
				if !ok {
					return true
				}
				for _, m := range s.env[owner+".#alias"] {
					if m.kind != 'A' || !ndFeasible(m, s.facts) {
						continue
					}
					key := fmt.Sprintf("NTTDOM:%s#reread(%s.IsNTT)", f.fkey, owner)
					if !f.seen[key] {
						f.seen[key] = true
						f.out = append(f.out, withProps(violOb("NTTDOM", key, f.c.Rel(se.Pos()), fmt.Sprintf("%s tests %s.IsNTT after the flag of another parameter of the same type was assigned at %s: when the operation is called in place (the two are the same object) the test reads the new flag, not the input's, and takes the other branch than with a distinct receiver", f.fkey, owner, m.sym)), flagNestProps(f.fkey)...))
					}
				}
				return true
			})
		}
		transferExpr(s, n)
		return s
	}
	join := func(a, b *ndState) *ndState {
		r := &ndState{facts: map[string]bool{}, env: map[string][]ndMember{}}
		for k, v := range a.facts {
			if w, ok := b.facts[k]; ok && w == v {
				r.facts[k] = v
			}
		}
		for p := range a.env {
			r.env[p] = nil
		}
		for p := range b.env {
			r.env[p] = nil
		}
		da, db := map[string]bool{}, map[string]bool{}
		for k, v := range a.facts {
			if _, ok := r.facts[k]; !ok {
				da[k] = v
			}
		}
		for k, v := range b.facts {
			if _, ok := r.facts[k]; !ok {
				db[k] = v
			}
		}
		for p := range r.env {
			ms := append(append([]ndMember{}, stampF(a.facts, da, lookup(a, p))...), stampF(b.facts, db, lookup(b, p))...)
			r.env[p] = ndNorm(ndMerge(ms))
		}
		return r
	}

	// edge-sensitive forward analysis
	in := map[*cfg.Block]*ndState{}
	inEnc := map[*cfg.Block]string{}
	entry := &ndState{facts: map[string]bool{}, env: map[string][]ndMember{}}
	in[g.Blocks[0]] = entry
	inEnc[g.Blocks[0]] = entry.enc()
	work := []*cfg.Block{g.Blocks[0]}
	outOf := func(b *cfg.Block, s *ndState) []*ndState {
		for _, n := range b.Nodes {
			s = transfer(n, s)
		}
		res := make([]*ndState, len(b.Succs))
		for i := range b.Succs {
			res[i] = s
		}
		if rs, ok := b.Stmt.(*ast.RangeStmt); ok && b.Kind == cfg.KindRangeLoop && len(b.Succs) == 2 {
			// go/cfg evaluates the key and value once before the loop: they change on every entry into the body
			t := s.clone()
			if id, ok := rs.Key.(*ast.Ident); ok && id != nil {
				assignIdent(t, id)
			}
			if id, ok := rs.Value.(*ast.Ident); ok && id != nil {
				assignIdent(t, id)
			}
			res[0] = t
			return res
		}
		if len(b.Succs) == 2 && len(b.Nodes) > 0 {
			if cond, ok := b.Nodes[len(b.Nodes)-1].(ast.Expr); ok {
				atom := func(e ast.Expr) (string, bool, bool) {
					k, v, ok := f.condFact(e)
					if ok && strings.HasSuffix(k, ".IsNTT") {
						// the flag of an element the function assigns: the test is about its current value
						owner := strings.TrimSuffix(k, ".IsNTT")
						if f.flagW[owner] || f.flagW[ndRoot(owner)] {
							ok = false
							if ms := lookup(s, owner+".#"); len(ms) == 1 && ms[0].kind == 'S' && !f.flagW[ms[0].sym] && !f.flagW[ndRoot(ms[0].sym)] {
								k, ok = ms[0].sym+".IsNTT", true
							}
						}
					}
					return k, v, ok
				}
				type lit struct {
					k string
					v bool
				}
				// decomp: the unit facts and the disjunctions that hold when e evaluates to want
				var decomp func(e ast.Expr, want bool) ([]lit, [][]lit)
				decomp = func(e ast.Expr, want bool) ([]lit, [][]lit) {
					e = unparen(e)
					if u, ok := e.(*ast.UnaryExpr); ok && u.Op == token.NOT {
						return decomp(u.X, !want)
					}
					if be, ok := e.(*ast.BinaryExpr); ok && (be.Op == token.LAND || be.Op == token.LOR) {
						if (be.Op == token.LAND) == want {
							// both operands have the value `want`
							u1, c1 := decomp(be.X, want)
							u2, c2 := decomp(be.Y, want)
							return append(u1, u2...), append(c1, c2...)
						}
						// at least one operand has the value `want`
						u1, c1 := decomp(be.X, want)
						u2, c2 := decomp(be.Y, want)
						if len(u1) == 1 && len(c1) == 0 && len(u2) == 1 && len(c2) == 0 {
							return nil, [][]lit{{u1[0], u2[0]}}
						}
						return nil, nil
					}
					// a comparison of two flags (`a.IsNTT != b.IsNTT`): exactly one / both-or-none hold
					if be, ok := e.(*ast.BinaryExpr); ok && (be.Op == token.EQL || be.Op == token.NEQ) {
						isFlag := func(x ast.Expr) bool {
							if tv, ok := f.info.Types[x]; ok && tv.Value != nil {
								return false
							}
							b, ok := f.info.TypeOf(x).Underlying().(*types.Basic)
							return ok && b.Info()&types.IsBoolean != 0
						}
						if isFlag(be.X) && isFlag(be.Y) {
							ka, va, oka := atom(be.X)
							kb, vb, okb := atom(be.Y)
							if oka && okb && ka != kb {
								differ := (be.Op == token.NEQ) == want
								// value of the atom that makes the operand true: va / vb
								if differ {
									// (X or Y) and (not X or not Y)
									return nil, [][]lit{{{ka, va}, {kb, vb}}, {{ka, !va}, {kb, !vb}}}
								}
								// (X or not Y) and (not X or Y)
								return nil, [][]lit{{{ka, va}, {kb, !vb}}, {{ka, !va}, {kb, vb}}}
							}
						}
					}
					if k, v, ok := atom(e); ok {
						return []lit{{k, v == want}}, nil
					}
					return nil, nil
				}
				apply := func(units []lit, clauses [][]lit) *ndState {
					t := s.clone()
					for _, u := range units {
						t.facts[u.k] = u.v
					}
					// values that cannot flow along this edge
					for p, ms := range t.env {
						var keep []ndMember
						changedAny := false
						for _, m := range ms {
							if !ndFeasible(m, t.facts) {
								continue
							}
							dead := false
							for _, cl := range clauses {
								contradicted, satisfied := 0, false
								var open []lit
								for _, l := range cl {
									v, known := t.facts[l.k]
									if !known {
										v, known = ndMemberFact(m, l.k)
									}
									switch {
									case !known:
										open = append(open, l)
									case v == l.v:
										satisfied = true
									default:
										contradicted++
									}
								}
								if satisfied {
									continue
								}
								if contradicted == len(cl) {
									dead = true
								} else if len(open) == 1 && m.kind != 'T' {
									// unit propagation: the only literal left must hold for this value
									fs := []string{}
									if m.facts != "" {
										fs = strings.Split(m.facts, ";")
									}
									bit := "=0"
									if open[0].v {
										bit = "=1"
									}
									fs = append(fs, open[0].k+bit)
									sort.Strings(fs)
									m = ndMember{kind: m.kind, sym: m.sym, facts: strings.Join(fs, ";")}
									changedAny = true
								}
							}
							if !dead {
								keep = append(keep, m)
							}
						}
						if len(keep) != len(ms) || changedAny {
							if len(keep) == 0 {
								keep = []ndMember{{kind: 'T'}}
							}
							t.env[p] = keep
						}
					}
					return t
				}
				tu, tc := decomp(cond, true)
				fu, fc := decomp(cond, false)
				if len(tu)+len(tc) > 0 {
					res[0] = apply(tu, tc)
				}
				if len(fu)+len(fc) > 0 {
					res[1] = apply(fu, fc)
				}
			}
		}
		return res
	}
	for iter := 0; len(work) > 0 && iter < 20000; iter++ {
		b := work[0]
		work = work[1:]
		outs := outOf(b, in[b])
		for i, su := range b.Succs {
			if _, ok := in[su]; !ok {
				in[su] = outs[i]
				inEnc[su] = outs[i].enc()
				work = append(work, su)
				continue
			}
			j := join(in[su], outs[i])
			if e := j.enc(); e != inEnc[su] {
				in[su] = j
				inEnc[su] = e
				work = append(work, su)
			}
		}
	}
	// reporting pass over the fixpoint
	record = true
	for _, b := range g.Blocks {
		s, ok := in[b]
		if !ok {
			continue
		}
		for _, n := range b.Nodes {
			s = transfer(n, s)
		}
	}
}

func (f *ndFunc) killMentioned(s *ndState, fl *ast.FuncLit, kill func(*ndState, string)) {
	roots := map[string]bool{}
	ast.Inspect(fl.Body, func(n ast.Node) bool {
		if id, ok := n.(*ast.Ident); ok {
			roots[id.Name] = true
		}
		return true
	})
	for p := range s.env {
		if roots[ndRoot(p)] {
			s.env[p] = []ndMember{{kind: 'T'}}
		}
	}
	// paths not yet in the environment that the literal may write: mark the roots as written wholesale
	for r := range roots {
		if _, ok := s.env[r]; !ok {
			for o := range f.params {
				if o.Name() == r && storageType(o.Type()) {
					kill(s, r)
				}
			}
		}
	}
}

func init() {
	core.Register(&core.Rule{Name: "NTTDOM", Props: []string{"C03", "C04", "C05", "C06", "C11", "C12", "C13", "C14", "C16", "C18", "C20"},
		Doc: "abstract interpretation of the domain (NTT / coefficient / as-the-owner's-IsNTT-flag-says) of every polynomial path over go/cfg with branch facts: no forward transform of a value already in the NTT domain, no inverse transform of a coefficient-domain value, no coefficient-domain automorphism of an NTT value or vice versa, no polynomial passed with a contradicting <x>IsNTT literal, and on every successful return the domain of an output's polynomials agrees with the IsNTT flag the function leaves on it (flag assignments, metadata copies and element copies are tracked in the same lattice)",
		Run: func(c *core.Ctx) []ob {
			out := scanNTTDom(c)
			out = append(out, control(c, "NTTDOM", scanNTTDom, "fixEvaluator).TraceOne", "fixEvaluator).LeaveNTT#exit", "fixEvaluator).RoundTrip#reread")...)
			out = append(out, core.Floor("NTTDOM", nil, "transform sites with a known source domain", c.Stats["nttdom_sites"], 10)...)
			return out
		}})
}

func exprString0(n ast.Node) string {
	if e, ok := n.(ast.Expr); ok {
		return exprString(e)
	}
	return ""
}

// ndCompatible: the facts two members were produced under do not contradict each other.
func ndCompatible(a, b ndMember) bool {
	if a.facts == "" || b.facts == "" {
		return true
	}
	fa := map[string]bool{}
	for _, kv := range strings.Split(a.facts, ";") {
		fa[kv[:len(kv)-2]] = kv[len(kv)-1] == '1'
	}
	return ndFeasible(b, fa)
}

// errorReturn: a return that reports a failure (outputs are unspecified then).
func (f *ndFunc) errorReturn(ret *ast.ReturnStmt) bool {
	if n := len(ret.Results); n > 0 {
		last := ret.Results[n-1]
		if tv, ok := f.info.Types[last]; ok && isErrorType(tv.Type) && !isNilIdent(last) {
			return true
		}
		return false
	}
	// bare return under `if err != nil`
	pm := parentMapCached(f.fd)
	for p := pm[ast.Node(ret)]; p != nil; p = pm[p] {
		if is, ok := p.(*ast.IfStmt); ok {
			if len(errVarsTestedNotNil(f.info, is.Cond)) > 0 {
				return true
			}
		}
	}
	return false
}

// flagTarget: an assignment target that sets the IsNTT flag (1) or the whole metadata (2) of an element.
func (f *ndFunc) flagTarget(l ast.Expr) (string, int) {
	l = unparen(l)
	if st, ok := l.(*ast.StarExpr); ok {
		l = unparen(st.X)
	}
	se, ok := l.(*ast.SelectorExpr)
	if !ok {
		return "", 0
	}
	kind := 0
	switch se.Sel.Name {
	case "IsNTT":
		kind = 1
	case "MetaData":
		kind = 2
	default:
		return "", 0
	}
	p, ok := f.path(se.X, 0)
	if !ok {
		return "", 0
	}
	return p + ".#", kind
}

func (f *ndFunc) flagValue(r ast.Expr, look func(string) []ndMember) []ndMember {
	r = unparen(r)
	if id, ok := r.(*ast.Ident); ok {
		switch id.Name {
		case "true":
			return []ndMember{{kind: 'N'}}
		case "false":
			return []ndMember{{kind: 'C'}}
		}
	}
	if se, ok := r.(*ast.SelectorExpr); ok && se.Sel.Name == "IsNTT" {
		if p, ok := f.path(se.X, 0); ok {
			return look(p + ".#")
		}
	}
	if ndIsPathExpr(r) {
		// a local copy of a flag: b := x.IsNTT
		if p, ok := f.path(r, 0); ok && strings.HasSuffix(p, ".IsNTT") {
			return look(strings.TrimSuffix(p, ".IsNTT") + ".#")
		}
	}
	return []ndMember{{kind: 'T'}}
}

func (f *ndFunc) metaValue(r ast.Expr, look func(string) []ndMember) []ndMember {
	r = unparen(r)
	if st, ok := r.(*ast.StarExpr); ok {
		r = unparen(st.X)
	}
	if u, ok := r.(*ast.UnaryExpr); ok && u.Op == token.AND {
		r = unparen(u.X)
	}
	switch x := r.(type) {
	case *ast.Ident:
		// a metadata value held in a local: md := *x.MetaData ; md.IsNTT = true ; *y.MetaData = md
		if tv, ok := f.info.Types[x]; ok && hasIsNTT(tv.Type) {
			if p, ok := f.path(x, 0); ok {
				return look(p + ".#")
			}
		}
	case *ast.CompositeLit:
		// the flag may be given in a nested literal: MetaData{CiphertextMetaData: CiphertextMetaData{IsNTT: true}}
		var found ast.Expr
		ast.Inspect(x, func(n ast.Node) bool {
			if kv, ok := n.(*ast.KeyValueExpr); ok && found == nil {
				if id, ok := kv.Key.(*ast.Ident); ok && id.Name == "IsNTT" {
					found = kv.Value
				}
			}
			return found == nil
		})
		if found != nil {
			return f.flagValue(found, look)
		}
		if len(x.Elts) == 0 || func() bool { _, ok := x.Elts[0].(*ast.KeyValueExpr); return ok }() {
			return []ndMember{{kind: 'C'}}
		}
	case *ast.SelectorExpr:
		if x.Sel.Name == "MetaData" {
			if p, ok := f.path(x.X, 0); ok {
				return look(p + ".#")
			}
		}
	case *ast.CallExpr:
		if se, ok := unparen(x.Fun).(*ast.SelectorExpr); ok && se.Sel.Name == "CopyNew" {
			if me, ok := unparen(se.X).(*ast.SelectorExpr); ok && me.Sel.Name == "MetaData" {
				if p, ok := f.path(me.X, 0); ok {
					return look(p + ".#")
				}
			}
		}
	}
	return []ndMember{{kind: 'T'}}
}

// ndCoeffSampler: the receiver of Read/ReadAndAdd is a sampler of small-norm (Gaussian, ternary) polynomials, whose
// output is by construction in the coefficient domain: concrete type, or for the ring.Sampler interface the name of
// the field it is stored in (noise/xe/xs/gaussian/ternary).
func ndCoeffSampler(info *types.Info, recv ast.Expr) bool {
	e := unparen(recv)
	for {
		call, ok := e.(*ast.CallExpr)
		if !ok {
			break
		}
		se, ok := unparen(call.Fun).(*ast.SelectorExpr)
		if !ok || (se.Sel.Name != "AtLevel" && se.Sel.Name != "WithPRNG") {
			return false
		}
		e = unparen(se.X)
	}
	tv, ok := info.Types[e]
	if !ok {
		return false
	}
	n := namedOf(tv.Type)
	if n == nil {
		return false
	}
	switch n.Obj().Name() {
	case "GaussianSampler", "TernarySampler":
		return true
	case "Sampler":
		last := ""
		switch x := e.(type) {
		case *ast.SelectorExpr:
			last = x.Sel.Name
		case *ast.Ident:
			last = x.Name
		}
		l := strings.ToLower(last)
		for _, h := range []string{"noise", "xe", "xs", "gaussian", "ternary", "smudg"} {
			if strings.Contains(l, h) {
				return true
			}
		}
	}
	return false
}

func (f *ndFunc) mixCheck(s *ndState, call *ast.CallExpr, name string, exprs []ast.Expr, ins [][]ndMember) {
	decided, bad := false, false
	var where string
	for _, a := range ins[0] {
		if !ndFeasible(a, s.facts) {
			continue
		}
		for _, b := range ins[1] {
			if !ndFeasible(b, s.facts) || !ndCompatible(a, b) {
				continue
			}
			both := map[string]bool{}
			for k, v := range s.facts {
				both[k] = v
			}
			for _, m := range []ndMember{a, b} {
				if m.facts != "" {
					for _, kv := range strings.Split(m.facts, ";") {
						both[kv[:len(kv)-2]] = kv[len(kv)-1] == '1'
					}
				}
			}
			ra, rb := ndResolve(a, both), ndResolve(b, both)
			if ra == 0 || rb == 0 {
				continue
			}
			decided = true
			if ra != rb {
				bad = true
				where = factsString(both)
			}
		}
	}
	if !decided {
		return
	}
	key := fmt.Sprintf("NTTDOM:%s#%s(%s,%s)", f.fkey, name, exprString(exprs[0]), exprString(exprs[1]))
	if bad {
		if !f.seen[key+"!"] {
			f.seen[key+"!"] = true
			if where == "" {
				where = "no condition"
			}
			f.out = append(f.out, withProps(violOb("NTTDOM", key, f.c.Rel(call.Pos()),
				fmt.Sprintf("%s: %s combines %s and %s, one in the NTT domain and the other in the coefficient domain (on the path where %s)", f.fkey, name, exprString(exprs[0]), exprString(exprs[1]), where)), flagNestProps(f.fkey)...))
		}
		return
	}
	if !f.seen[key] && !f.seen[key+"!"] {
		f.seen[key] = true
		f.out = append(f.out, withProps(okOb("NTTDOM", key, f.c.Rel(call.Pos()), "both inputs of the element-wise operation are in the same domain on every decided path", true), flagNestProps(f.fkey)...))
	}
}

func ndLabelVerb(label string) string {
	if label == "exit" {
		return "returns"
	}
	return "passes the element to " + strings.TrimPrefix(label, "arg:")
}
