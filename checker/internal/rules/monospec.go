package rules

import (
	"fmt"
	"go/ast"
	"go/token"
	"go/types"
	"strings"

	"lvcheck/internal/core"
)

// MONOSPEC — the product by a monomial moves every coefficient to the right place with the right sign.
//
// Ring.MultByMonomial(p1, k, p2) evaluates p2 = p1 * X^k in Z_Q[X]/(X^N+1): coefficient i of p1 goes to position
// (i+k) mod N with the sign (-1)^floor((i+k)/N) (X^N = -1, X^2N = 1, negative k included). The function is written as
// copies, negations and index arithmetic guarded by tests on k mod 2N — the kind of code where an off-by-one on a
// boundary (k = N, k = 0 mod 2N, k < 0) survives a test that multiplies by X^1, X^8 and X^9.
//
// The rule runs the function body with the exact-index abstract interpreter of QRANGE/NTTSCHED at the ring level
// (r.N() = 8, one representative residue, `r.NewPoly()` a zero scratch, coefficient values abstract) for every k in
// [-2N-1, 2N+1], with signed dependencies: a value subtracted from the modulus is the negation of what it was computed
// from, and what is stored is expressed in the coefficients of p1. The stored p2 must be, position by position, the
// signed coefficient of p1 the algebra says. This decides the index and sign behaviour for N = 8 (the code does not
// depend on N other than through it); it does not decide the reductions (the value ranges are QRANGE's).
func scanMonoSpec(c *core.Ctx) []ob {
	var out []ob
	n := 0
	for _, pk := range c.Pkgs {
		if !(c.IsFixture || core.ShortPkg(pk.PkgPath) == "ring") {
			continue
		}
		info := pk.TypesInfo
		decls := map[*types.Func]*ast.FuncDecl{}
		for _, f := range pk.Syntax {
			for _, d := range f.Decls {
				if fd, ok := d.(*ast.FuncDecl); ok && fd.Body != nil {
					if o, ok := info.Defs[fd.Name].(*types.Func); ok {
						decls[o] = fd
					}
				}
			}
		}
		for _, f := range pk.Syntax {
			if fileIsTestSupport(c.Program, f.Pos()) {
				continue
			}
			for _, d := range f.Decls {
				fd, ok := d.(*ast.FuncDecl)
				if !ok || fd.Body == nil || fd.Recv == nil || !strings.Contains(fd.Name.Name, "MultByMonomial") {
					continue
				}
				// signature: (p1 Poly, k int, p2 Poly)
				var pin, pout, kpar *ast.Ident
				for _, fl := range fd.Type.Params.List {
					for _, nm := range fl.Names {
						t := info.TypeOf(nm)
						switch {
						case isIntLike(t):
							kpar = nm
						case strings.HasSuffix(t.String(), "ring.Poly") || strings.HasSuffix(t.String(), ".Poly"):
							if pin == nil {
								pin = nm
							} else {
								pout = nm
							}
						}
					}
				}
				if pin == nil || pout == nil || kpar == nil {
					continue
				}
				n++
				fkey := core.FuncKey(pk, fd)
				key := "MONOSPEC:" + fkey
				const N = 8
				var bad []string
				var badPos token.Pos
				checked := 0
				for k := -2*N - 1; k <= 2*N+1; k++ {
					q := &qInterp{c: c, info: info, decls: decls, cells: map[string]qitv{}, exact: true, slen: map[string]int64{}, trackDeps: true, trackSign: true, ringN: N, hist: map[string][]string{}, histPos: map[string][]token.Pos{}, resolved: map[string]string{}}
					fr := newQFrame()
					for _, id := range []*ast.Ident{pin, pout} {
						fr.sym[info.Defs[id]] = id.Name
						fr.base[info.Defs[id]] = ival{true, 0}
						q.slen[id.Name] = N
					}
					q.cells[pin.Name] = qbelow(1)
					fr.n[info.Defs[kpar]] = ival{true, int64(k)}
					q.block(fr, fd.Body.List)
					for _, p := range q.probs {
						if p.kind == "index" || p.kind == "loop" {
							if len(bad) < 3 {
								bad = append(bad, fmt.Sprintf("k=%d: %s (%s)", k, p.msg, c.Rel(p.pos)))
							}
							if badPos == token.NoPos {
								badPos = p.pos
							}
						}
					}
					shift := ((k % (2 * N)) + 2*N) % (2 * N)
					want := make([]string, N)
					for i := 0; i < N; i++ {
						t := (i + shift) % (2 * N)
						if t < N {
							want[t] = fmt.Sprintf("%s#%d", pin.Name, i)
						} else {
							want[t-N] = fmt.Sprintf("-%s#%d", pin.Name, i)
						}
					}
					for j := 0; j < N; j++ {
						cell := fmt.Sprintf("%s#%d", pout.Name, j)
						have, ok := q.resolved[cell]
						checked++
						if !ok {
							have = "(not stored)"
						}
						if have != want[j] {
							if len(bad) < 3 {
								show := func(s string) string { return strings.ReplaceAll(strings.ReplaceAll(s, "#", "["), ",", "], ") + "]" }
								bad = append(bad, fmt.Sprintf("k=%d: %s[%d] is %s, the product by X^%d puts %s there", k, pout.Name, j, strings.TrimSuffix(show(have), "]")+"]", k, show(want[j])))
							}
							if badPos == token.NoPos {
								if ps := q.histPos[cell]; len(ps) > 0 {
									badPos = ps[len(ps)-1]
								} else {
									badPos = fd.Pos()
								}
							}
						}
					}
				}
				if len(bad) > 0 {
					out = append(out, violOb("MONOSPEC", key, c.Rel(badPos), fmt.Sprintf("%s does not compute the product by X^k in Z[X]/(X^%d+1): %s", fkey, N, strings.Join(bad, "; "))))
				} else {
					out = append(out, okOb("MONOSPEC", key, c.Rel(fd.Pos()), fmt.Sprintf("for N=%d and every k in [%d, %d] (%d coefficients) each stored coefficient of %s is the coefficient of %s at the position and with the sign the algebra of X^N = -1 gives", N, -2*N-1, 2*N+1, checked, pout.Name, pin.Name), true))
				}
			}
		}
	}
	c.Stats["monospec_fns"] = n
	return out
}

func init() {
	core.Register(&core.Rule{Name: "MONOSPEC", Props: []string{"C01"},
		Doc: "Ring.MultByMonomial, run with the exact-index abstract interpreter at the ring level (N = 8, every k in [-2N-1, 2N+1], signed dependencies resolved to the input), stores in every position of the output the coefficient of the input, with the sign, that the product by X^k in Z[X]/(X^N+1) puts there",
		Run: func(c *core.Ctx) []ob {
			out := scanMonoSpec(c)
			if !c.IsFixture {
				out = append(out, core.Floor("MONOSPEC", nil, "monomial products", c.Stats["monospec_fns"], 1)...)
			}
			return out
		}})
}
