package rules

import (
	"fmt"
	"go/ast"
	"go/token"
	"go/types"
	"strings"

	"golang.org/x/tools/go/packages"

	"lvcheck/internal/core"
)

// Evaluator-layer discipline rules (C05, C06, C11, C12, C13).
//
// KEYGET  — the key-set getters GetRelinearizationKey / GetGaloisKey reached through an evaluator (whose key set is
//           an embedded, possibly nil interface) are called only from the CheckAndGet* accessors, which test the
//           interface for nil and turn a missing key into an error.
// ERRDROP — in the evaluator and circuit layers no error result of a module call is discarded (assigned to _ or
//           unassigned) and none is overwritten before being tested or returned.
// LOOPACC — inside a loop, an update of the form A.f = B.f.Op(..) accumulates on the object it reads:
//           A and B must be the same object (a loop that rescales k times must divide the *running* scale).
// FWDNEW  — an allocating wrapper XNew(args) forwards to X with its own operands in the same order plus the
//           freshly allocated output that it returns.

func evalLayer(rel string) bool {
	return strings.HasPrefix(rel, "schemes/") || strings.HasPrefix(rel, "circuits/") || strings.HasPrefix(rel, "core/rlwe") || strings.HasPrefix(rel, "core/rgsw")
}

func evalProps(key string) []string {
	switch {
	case strings.Contains(key, "schemes/bgv"):
		return []string{"C05"}
	case strings.Contains(key, "schemes/ckks"):
		return []string{"C06"}
	case strings.Contains(key, "lintrans"):
		return []string{"C12"}
	case strings.Contains(key, "polynomial") || strings.Contains(key, "minimax") || strings.Contains(key, "comparison") || strings.Contains(key, "inverse") || strings.Contains(key, "mod1"):
		return []string{"C13"}
	case strings.Contains(key, "bootstrapping") || strings.Contains(key, "dft"):
		return []string{"C18"}
	case strings.Contains(key, "core/rgsw"):
		return []string{"C20"}
	case strings.Contains(key, "inner_sum") || strings.Contains(key, "InnerSum") || strings.Contains(key, "Trace") || strings.Contains(key, "Rotate") || strings.Contains(key, "Replicate") || strings.Contains(key, "Automorphism") || strings.Contains(key, "PartialTraces") || strings.Contains(key, "InnerFunction"):
		return []string{"C11"}
	}
	return []string{"C04"}
}

func scanKeyGet(c *core.Ctx) []ob {
	var out []ob
	n := 0
	c.FuncDecls(func(pk *packages.Package, file *ast.File, fd *ast.FuncDecl) {
		rel := core.ShortPkg(pk.PkgPath)
		if !evalLayer(rel) || fileIsTestSupport(c.Program, fd.Pos()) {
			return
		}
		info := pk.TypesInfo
		ast.Inspect(fd.Body, func(nd ast.Node) bool {
			call, ok := nd.(*ast.CallExpr)
			if !ok {
				return true
			}
			sel, ok := unparen(call.Fun).(*ast.SelectorExpr)
			if !ok || (sel.Sel.Name != "GetRelinearizationKey" && sel.Sel.Name != "GetGaloisKey") {
				return true
			}
			// receiver must be an evaluator (promoted through the embedded key-set interface)
			rt := namedOf(info.TypeOf(sel.X))
			if rt == nil || !strings.Contains(rt.Obj().Name(), "Evaluator") {
				return true
			}
			n++
			key := fmt.Sprintf("KEYGET:%s#%s", core.FuncKey(pk, fd), sel.Sel.Name)
			if strings.HasPrefix(fd.Name.Name, "CheckAndGet") {
				out = append(out, okOb("KEYGET", key, c.Rel(call.Pos()), "called from the nil-checking accessor", true))
			} else {
				out = append(out, violOb("KEYGET", key, c.Rel(call.Pos()), fmt.Sprintf("%s calls %s directly on the evaluator's embedded key-set interface: with an evaluator created without keys (nil interface) this is a nil dereference panic instead of the documented 'missing key' error; use CheckAnd%s", core.FuncKey(pk, fd), sel.Sel.Name, sel.Sel.Name)))
			}
			return true
		})
	})
	c.Stats["keyget_sites"] = n
	return out
}

// errDropExempt: enclosing function -> callee whose error may be dropped, with the reason.
var errDropExempt = map[string]string{
	// the literal is the first primes of parameters that were themselves validated: construction cannot fail
	"circuits/ckks/bootstrapping.(Parameters).genEncapsulationEvaluationKeysNew": "NewParametersFromLiteral",
}

func scanErrDrop(c *core.Ctx) []ob {
	var out []ob
	n := 0
	c.FuncDecls(func(pk *packages.Package, file *ast.File, fd *ast.FuncDecl) {
		rel := core.ShortPkg(pk.PkgPath)
		if !(strings.HasPrefix(rel, "schemes/") || strings.HasPrefix(rel, "circuits/") || strings.HasPrefix(rel, "core/rlwe/inner") || rel == "core/rlwe" || strings.HasPrefix(rel, "core/rgsw")) || fileIsTestSupport(c.Program, fd.Pos()) {
			return
		}
		info := pk.TypesInfo
		// only functions that call module functions returning errors
		has := false
		ast.Inspect(fd.Body, func(nd ast.Node) bool {
			if call, ok := nd.(*ast.CallExpr); ok {
				if f := calleeFunc(info, call); f != nil && f.Pkg() != nil && strings.HasPrefix(f.Pkg().Path(), core.ModPath) {
					if sig, ok := f.Type().(*types.Signature); ok {
						if isErr, _ := lastResultIsError(sig); isErr {
							has = true
						}
					}
				}
			}
			return !has
		})
		if !has || codecNames[fd.Name.Name] {
			return
		}
		n++
		modErr := func(call *ast.CallExpr, res int) bool {
			f := calleeFunc(info, call)
			if f == nil || f.Pkg() == nil || !strings.HasPrefix(f.Pkg().Path(), core.ModPath) {
				return false
			}
			if ex, ok := errDropExempt[core.FuncKey(pk, fd)]; ok && ex == f.Name() {
				return false
			}
			t := resultType(info, call, res)
			return t != nil && isErrorType(t)
		}
		interesting := func(call *ast.CallExpr, res int, lhs types.Object) bool { return modErr(call, res) }
		viols := pendingAnalysis(info, fd, interesting, false, modErr)
		key := "ERRDROP:" + core.FuncKey(pk, fd)
		if len(viols) == 0 {
			out = append(out, okOb("ERRDROP", key, c.Rel(fd.Pos()), "every error returned by a module call is tested or returned", true))
			return
		}
		for i, v := range viols {
			k := key
			if i > 0 {
				k = fmt.Sprintf("%s#%d", key, i)
			}
			out = append(out, violOb("ERRDROP", k, c.Rel(v.pos), fmt.Sprintf("%s: the error produced at %s (%s) is %s at %s without having been tested or returned: a documented failure condition would go unreported", core.FuncKey(pk, fd), c.Rel(v.pos), v.vname, v.what, c.Rel(v.at))))
		}
	})
	c.Stats["errdrop_functions"] = n
	return out
}

func scanLoopAcc(c *core.Ctx) []ob {
	var out []ob
	n := 0
	c.FuncDecls(func(pk *packages.Package, file *ast.File, fd *ast.FuncDecl) {
		rel := core.ShortPkg(pk.PkgPath)
		if !evalLayer(rel) && !strings.HasPrefix(rel, "multiparty") || fileIsTestSupport(c.Program, fd.Pos()) {
			return
		}
		info := pk.TypesInfo
		pm := parentMapCached(fd)
		ast.Inspect(fd.Body, func(nd ast.Node) bool {
			as, ok := nd.(*ast.AssignStmt)
			if !ok || as.Tok != token.ASSIGN || len(as.Lhs) != 1 || len(as.Rhs) != 1 {
				return true
			}
			ls, ok := unparen(as.Lhs[0]).(*ast.SelectorExpr)
			if !ok {
				return true
			}
			call, ok := unparen(as.Rhs[0]).(*ast.CallExpr)
			if !ok {
				return true
			}
			ms, ok := unparen(call.Fun).(*ast.SelectorExpr)
			if !ok {
				return true
			}
			rs, ok := unparen(ms.X).(*ast.SelectorExpr)
			if !ok || rs.Sel.Name != ls.Sel.Name {
				return true
			}
			if sel := info.Selections[ls]; sel == nil || sel.Kind() != types.FieldVal {
				return true
			}
			// inside a loop ?
			inLoop := false
			for p := pm[ast.Node(as)]; p != nil; p = pm[p] {
				switch p.(type) {
				case *ast.ForStmt, *ast.RangeStmt:
					inLoop = true
				}
			}
			if !inLoop {
				return true
			}
			n++
			key := fmt.Sprintf("LOOPACC:%s#%s.%s", core.FuncKey(pk, fd), exprString(ls.X), ls.Sel.Name)
			a, b := identObj(info, ls.X), identObj(info, rs.X)
			if a != nil && b != nil && a != b {
				out = append(out, violOb("LOOPACC", key, c.Rel(as.Pos()), fmt.Sprintf("%s updates %s inside a loop from %s: each iteration restarts from the other object's value instead of accumulating on the running one (e.g. a two-prime rescale divides the scale only once)", core.FuncKey(pk, fd), exprString(as.Lhs[0]), exprString(ms.X))))
			} else {
				out = append(out, okOb("LOOPACC", key, c.Rel(as.Pos()), "loop-carried update reads the field it writes", true))
			}
			return true
		})
	})
	c.Stats["loopacc_sites"] = n
	return out
}

func scanFwdNew(c *core.Ctx) []ob {
	var out []ob
	n := 0
	c.FuncDecls(func(pk *packages.Package, file *ast.File, fd *ast.FuncDecl) {
		rel := core.ShortPkg(pk.PkgPath)
		if !evalLayer(rel) || fd.Recv == nil || !strings.HasSuffix(fd.Name.Name, "New") || fileIsTestSupport(c.Program, fd.Pos()) {
			return
		}
		info := pk.TypesInfo
		base := strings.TrimSuffix(fd.Name.Name, "New")
		recv := recvObj(info, fd)
		params, order := paramMap(info, fd)
		// find the call recv.base(args...) (possibly through an embedded evaluator: recv.X.base)
		var fwd *ast.CallExpr
		ast.Inspect(fd.Body, func(nd ast.Node) bool {
			call, ok := nd.(*ast.CallExpr)
			if !ok {
				return true
			}
			sel, ok := unparen(call.Fun).(*ast.SelectorExpr)
			if !ok || sel.Sel.Name != base {
				return true
			}
			if r := rootIdent(sel.X); r != nil && recv != nil && info.Uses[r] == recv {
				if fwd == nil {
					fwd = call
				}
			}
			return true
		})
		if fwd == nil {
			return
		}
		n++
		key := "FWDNEW:" + core.FuncKey(pk, fd)
		// operands: the wrapper's own parameters must appear as the leading arguments in the same order
		var passed []string
		for _, a := range fwd.Args {
			if o := identObj(info, a); o != nil {
				if nm, ok := params[o]; ok {
					passed = append(passed, nm)
				}
			}
		}
		// compare the relative order of forwarded parameters with the declaration order
		idx := map[string]int{}
		for i, nm := range order {
			idx[nm] = i
		}
		okOrder := true
		for i := 1; i < len(passed); i++ {
			if idx[passed[i]] < idx[passed[i-1]] {
				okOrder = false
			}
		}
		// the last argument must be the returned fresh output
		// the destination(s) handed to X must be among the values the wrapper returns (named results)
		resObjs := map[types.Object]bool{}
		var resObj types.Object
		if fd.Type.Results != nil {
			for _, fl := range fd.Type.Results.List {
				for _, nm := range fl.Names {
					if o := info.Defs[nm]; o != nil && !isErrorType(o.Type()) {
						resObjs[o] = true
						if resObj == nil {
							resObj = o
						}
					}
				}
			}
		}
		lastOK := true
		if len(resObjs) > 0 {
			lastOK = false
			for _, a := range fwd.Args {
				if mentionsVar(info, a, resObjs) {
					lastOK = true
				}
			}
		}
		switch {
		case !okOrder:
			out = append(out, violOb("FWDNEW", key, c.Rel(fwd.Pos()), fmt.Sprintf("%s forwards its operands to %s in the order (%s), not the order in which it receives them (%s)", core.FuncKey(pk, fd), base, strings.Join(passed, ","), strings.Join(order, ","))))
		case !lastOK:
			out = append(out, violOb("FWDNEW", key, c.Rel(fwd.Pos()), fmt.Sprintf("%s does not pass the output it returns (%s) as the destination of %s", core.FuncKey(pk, fd), resObj.Name(), base)))
		default:
			out = append(out, okOb("FWDNEW", key, c.Rel(fwd.Pos()), "forwards its operands in order and returns the destination it passes", true))
		}
	})
	c.Stats["fwdnew_wrappers"] = n
	return out
}

func registerEval(name, doc string, props []string, scan func(*core.Ctx) []ob, stat, what string, floor int) {
	core.Register(&core.Rule{Name: name, Props: props, Doc: doc,
		Run: func(c *core.Ctx) []ob {
			out := scan(c)
			for i := range out {
				out[i].Props = evalProps(out[i].Key)
			}
			for _, o := range core.Floor(name, nil, what, c.Stats[stat], floor) {
				out = append(out, withProps(o, props...))
			}
			return out
		}})
}

func init() {
	all := []string{"C04", "C05", "C06", "C11", "C12", "C13", "C18", "C20"}
	registerEval("KEYGET", "GetRelinearizationKey/GetGaloisKey are reached through an evaluator only from the nil-checking CheckAndGet* accessors", all, scanKeyGet, "keyget_sites", "key-getter call sites", 2)
	registerEval("ERRDROP", "in the evaluator and circuit layers every error returned by a module call is tested or returned before being overwritten or dropped (pending-value dataflow over go/cfg)", all, scanErrDrop, "errdrop_functions", "functions calling fallible module operations", 100)
	registerEval("LOOPACC", "a loop-carried field update A.f = B.f.Op(..) reads the object it writes", all, scanLoopAcc, "loopacc_sites", "loop-carried field updates", 1)
	registerEval("FWDNEW", "an allocating wrapper XNew forwards its operands to X in the order it receives them and passes the output it returns as destination", all, scanFwdNew, "fwdnew_wrappers", "allocating wrappers", 40)
}
