package rules

import (
	"fmt"
	"go/ast"
	"go/token"
	"go/types"
	"regexp"
	"strconv"
	"strings"

	"golang.org/x/tools/go/packages"

	"lvcheck/internal/core"
)

// LANE — unrolled-lane uniformity.
//
// A lane group is a maximal run of >= 4 consecutive "lanes" (groups of p consecutive statements, p in 1..4)
// inside one block whose syntax trees have the same structure once identifiers, literals and operators are
// abstracted, and in which at least one integer-literal (or digit-suffixed identifier) position runs through
// an arithmetic progression — i.e. a hand-unrolled loop. Inside a lane group every leaf position must be
//   - constant across lanes, or
//   - (integer literals / digit suffixes) block-affine in the lane number: v_i = v_0 + c*(i mod B) + d*(i div B)
//     for a power-of-two block size B (B = lanes gives the plain affine case; smaller B is the butterfly pattern).
// A kernel rewritten as a plain loop has no lanes and yields no obligation.

type leaf struct {
	kind string // "id", "int", "op", "lit"
	val  string
	pos  token.Pos
	id   *ast.Ident
}

// shapeAndLeaves linearises a statement: structure string (node kinds, arities) and the ordered leaves.
func shapeAndLeaves(n ast.Node) (string, []leaf) {
	var sb strings.Builder
	var leaves []leaf
	var walk func(n ast.Node)
	walk = func(n ast.Node) {
		if n == nil {
			sb.WriteString("_")
			return
		}
		switch x := n.(type) {
		case *ast.Ident:
			sb.WriteString("I")
			leaves = append(leaves, leaf{"id", x.Name, x.Pos(), x})
		case *ast.BasicLit:
			sb.WriteString("L")
			if x.Kind == token.INT {
				leaves = append(leaves, leaf{"int", x.Value, x.Pos(), nil})
			} else {
				leaves = append(leaves, leaf{"lit", x.Value, x.Pos(), nil})
			}
		case *ast.BinaryExpr:
			sb.WriteString("B(")
			walk(x.X)
			leaves = append(leaves, leaf{"op", x.Op.String(), x.OpPos, nil})
			walk(x.Y)
			sb.WriteString(")")
		case *ast.UnaryExpr:
			sb.WriteString("U(")
			leaves = append(leaves, leaf{"op", x.Op.String(), x.OpPos, nil})
			walk(x.X)
			sb.WriteString(")")
		case *ast.ParenExpr:
			sb.WriteString("P(")
			walk(x.X)
			sb.WriteString(")")
		case *ast.IndexExpr:
			sb.WriteString("X(")
			walk(x.X)
			walk(x.Index)
			sb.WriteString(")")
		case *ast.SelectorExpr:
			sb.WriteString("S(")
			walk(x.X)
			walk(x.Sel)
			sb.WriteString(")")
		case *ast.StarExpr:
			sb.WriteString("D(")
			walk(x.X)
			sb.WriteString(")")
		case *ast.CallExpr:
			sb.WriteString(fmt.Sprintf("C%d(", len(x.Args)))
			walk(x.Fun)
			for _, a := range x.Args {
				walk(a)
			}
			sb.WriteString(")")
		case *ast.SliceExpr:
			sb.WriteString("SL(")
			walk(x.X)
			walk(x.Low)
			walk(x.High)
			walk(x.Max)
			sb.WriteString(")")
		case *ast.AssignStmt:
			sb.WriteString(fmt.Sprintf("A%d,%d(", len(x.Lhs), len(x.Rhs)))
			for _, l := range x.Lhs {
				walk(l)
			}
			leaves = append(leaves, leaf{"op", x.Tok.String(), x.TokPos, nil})
			for _, r := range x.Rhs {
				walk(r)
			}
			sb.WriteString(")")
		case *ast.ExprStmt:
			sb.WriteString("E(")
			walk(x.X)
			sb.WriteString(")")
		case *ast.IncDecStmt:
			sb.WriteString("ID(")
			walk(x.X)
			leaves = append(leaves, leaf{"op", x.Tok.String(), x.TokPos, nil})
			sb.WriteString(")")
		case *ast.TypeAssertExpr:
			sb.WriteString("TA(")
			walk(x.X)
			sb.WriteString(")")
		case *ast.CompositeLit:
			sb.WriteString(fmt.Sprintf("CL%d(", len(x.Elts)))
			for _, e := range x.Elts {
				walk(e)
			}
			sb.WriteString(")")
		case *ast.KeyValueExpr:
			sb.WriteString("KV(")
			walk(x.Key)
			walk(x.Value)
			sb.WriteString(")")
		case *ast.ArrayType:
			sb.WriteString("AT(")
			walk(x.Len)
			walk(x.Elt)
			sb.WriteString(")")
		default:
			// control statements, declarations, func literals ...: opaque and unique, they break runs
			sb.WriteString(fmt.Sprintf("?%T@%d", n, n.Pos()))
		}
	}
	walk(n)
	return sb.String(), leaves
}

var digitSuffix = regexp.MustCompile(`^(.*?)(\d+)$`)

// blockAffine reports whether seq fits v_i = v0 + c*(i mod B) + d*(i div B) for some power-of-two B <= len(seq).
func blockAffine(seq []int) bool {
	k := len(seq)
	for B := 1; B <= k; B <<= 1 {
		if B != k && k%B != 0 {
			continue
		}
		c, d := 0, 0
		if B > 1 {
			c = seq[1] - seq[0]
		}
		if B < k {
			d = seq[B] - seq[0]
		}
		ok := true
		for i := 0; i < k; i++ {
			if seq[i] != seq[0]+c*(i%B)+d*(i/B) {
				ok = false
				break
			}
		}
		if ok {
			return true
		}
	}
	// non power-of-two lane counts (7-lane tails): plain affine only
	if k >= 2 {
		c := seq[1] - seq[0]
		ok := true
		for i := range seq {
			if seq[i] != seq[0]+c*i {
				ok = false
			}
		}
		return ok
	}
	return true
}

// mostlyProgressing reports whether seq looks like an unrolled index: its values are pairwise distinct
// in all lanes but at most one.
func mostlyProgressing(seq []int) bool {
	if len(seq) < 3 {
		return false
	}
	seen := map[int]int{}
	for _, v := range seq {
		seen[v]++
	}
	return len(seen) >= len(seq)-1
}

type laneGroup struct {
	fnKey  string
	ord    int
	period int
	lanes  int
	stmts  []ast.Stmt
}

func scanLane(c *core.Ctx) []ob {
	var out []ob
	nGroups := 0
	nWin := 0
	c.FuncDecls(func(pk *packages.Package, file *ast.File, fd *ast.FuncDecl) {
		if fileIsTestSupport(c.Program, fd.Pos()) || inExamples(pk) {
			return
		}
		fkey := core.FuncKey(pk, fd)
		ord := 0
		ast.Inspect(fd.Body, func(n ast.Node) bool {
			var list []ast.Stmt
			switch b := n.(type) {
			case *ast.BlockStmt:
				list = b.List
			case *ast.CaseClause:
				list = b.Body
			default:
				return true
			}
			if len(list) < 4 {
				return true
			}
			shapes := make([]string, len(list))
			leaves := make([][]leaf, len(list))
			for i, s := range list {
				shapes[i], leaves[i] = shapeAndLeaves(s)
			}
			used := make([]bool, len(list))
			winWrites := windowWrites(pk.TypesInfo, list)
			minLanes := 6
			if len(winWrites) > 0 {
				minLanes = 4
			}
			for period := 1; period <= 4; period++ {
				for s := 0; s+period*4 <= len(list); s++ {
					if used[s] {
						continue
					}
					// opaque statements never start a group
					if strings.Contains(shapes[s], "?") {
						continue
					}
					e := s + period
					for e < len(list) && shapes[e] == shapes[e-period] && !used[e] {
						e++
					}
					nl := (e - s) / period
					if nl < 4 {
						continue
					}
					// for period>1 make sure the period is minimal (not all the same shape)
					if period > 1 {
						same := true
						for i := s + 1; i < s+period; i++ {
							if shapes[i] != shapes[s] {
								same = false
							}
						}
						if same {
							continue
						}
					}
					e = s + nl*period
					// gather leaves per lane
					laneLeaves := make([][]leaf, nl)
					for l := 0; l < nl; l++ {
						for i := 0; i < period; i++ {
							laneLeaves[l] = append(laneLeaves[l], leaves[s+l*period+i]...)
						}
					}
					npos := len(laneLeaves[0])
					// lane-likeness: some numeric position progresses
					laneLike := false
					numSeq := make([][]int, npos)
					numOK := make([]bool, npos)
					for p := 0; p < npos; p++ {
						seq := make([]int, nl)
						ok := true
						for l := 0; l < nl; l++ {
							lf := laneLeaves[l][p]
							switch lf.kind {
							case "int":
								v, err := strconv.ParseInt(lf.val, 0, 64)
								if err != nil {
									ok = false
								}
								seq[l] = int(v)
							case "id":
								m := digitSuffix.FindStringSubmatch(lf.val)
								if m == nil {
									ok = false
								} else {
									v, _ := strconv.Atoi(m[2])
									seq[l] = v
								}
							default:
								ok = false
							}
						}
						numOK[p] = ok
						numSeq[p] = seq
						if ok && mostlyProgressing(seq) {
							laneLike = true
						}
					}
					if !laneLike || nl < minLanes {
						continue
					}
					for i := s; i < e; i++ {
						used[i] = true
					}
					ord++
					nGroups++
					gkey := fmt.Sprintf("LANE:%s#group%d(lanes=%d,stmts/lane=%d)", fkey, ord, nl, period)
					var problems []string
					var ppos token.Pos
					for p := 0; p < npos; p++ {
						// constant?
						allSame := true
						for l := 1; l < nl; l++ {
							if laneLeaves[l][p].val != laneLeaves[0][p].val || laneLeaves[l][p].kind != laneLeaves[0][p].kind {
								allSame = false
							}
						}
						if allSame {
							continue
						}
						kind := laneLeaves[0][p].kind
						if numOK[p] {
							if kind == "id" {
								// same prefix required
								pre := digitSuffix.FindStringSubmatch(laneLeaves[0][p].val)[1]
								okp := true
								for l := 1; l < nl; l++ {
									if digitSuffix.FindStringSubmatch(laneLeaves[l][p].val)[1] != pre {
										okp = false
									}
								}
								if okp && blockAffine(numSeq[p]) {
									continue
								}
							} else if blockAffine(numSeq[p]) {
								continue
							}
						}
						// deviation: find the odd lane(s)
						cnt := map[string]int{}
						for l := 0; l < nl; l++ {
							cnt[laneLeaves[l][p].val]++
						}
						var vals []string
						for l := 0; l < nl; l++ {
							vals = append(vals, laneLeaves[l][p].val)
						}
						odd := -1
						if numOK[p] && kind == "int" {
							odd = oddLane(numSeq[p])
						} else {
							for l := 0; l < nl; l++ {
								if cnt[laneLeaves[l][p].val] == 1 && len(cnt) == 2 {
									odd = l
								}
							}
						}
						where := laneLeaves[0][p].pos
						if odd >= 0 {
							where = laneLeaves[odd][p].pos
						}
						if ppos == token.NoPos {
							ppos = where
						}
						problems = append(problems, fmt.Sprintf("leaf #%d takes the values [%s] over the lanes (odd lane: %d at %s)", p, strings.Join(vals, " "), odd, c.Rel(where)))
					}
					if len(problems) == 0 {
						out = append(out, okOb("LANE", gkey, c.Rel(list[s].Pos()), fmt.Sprintf("%d lanes x %d leaves uniform (constant or block-affine in the lane number)", nl, npos), true))
					} else {
						o := violOb("LANE", gkey, c.Rel(ppos), fmt.Sprintf("%s: unrolled lanes at %s are not uniform: %s — one lane computes something else than its siblings, which a single random test vector compared coefficient-wise may not reveal", fkey, c.Rel(list[s].Pos()), strings.Join(problems, "; ")))
						out = append(out, o)
					}
				}
			}
			// window coverage and orphan lanes
			if len(winWrites) > 0 {
				type wk struct {
					obj types.Object
				}
				byArr := map[types.Object][]winWrite{}
				var order []types.Object
				for _, w := range winWrites {
					if _, ok := byArr[w.arr]; !ok {
						order = append(order, w.arr)
					}
					byArr[w.arr] = append(byArr[w.arr], w)
				}
				for _, arr := range order {
					ws := byArr[arr]
					K := ws[0].k
					cnt := make([]int, K)
					byShape := map[string][]int{}
					var shapeOrder []string
					for _, w := range ws {
						if w.idx >= 0 && w.idx < K {
							cnt[w.idx]++
							sh := shapes[w.stmt]
							if _, ok := byShape[sh]; !ok {
								shapeOrder = append(shapeOrder, sh)
							}
							byShape[sh] = append(byShape[sh], w.idx)
						}
					}
					ckey := fmt.Sprintf("LANE:%s#window(%s[%d])@block%d", fkey, arr.Name(), K, blockOrd(fd, n))
					bad := ""
					for i := 0; i < K; i++ {
						if cnt[i] == 0 {
							bad = fmt.Sprintf("index %d is never written although the other slots are", i)
							break
						}
					}
					if bad == "" {
						for _, sh := range shapeOrder {
							idx := byShape[sh]
							// per statement shape: each slot written equally often, and the slot set is a regular (block-affine) pattern
							c2 := map[int]int{}
							for _, v := range idx {
								c2[v]++
							}
							var distinct []int
							for v := 0; v < K; v++ {
								if c2[v] > 0 {
									distinct = append(distinct, v)
								}
							}
							for _, v := range distinct {
								if c2[v] != c2[distinct[0]] {
									bad = fmt.Sprintf("slot %d is written %d time(s) by the same kind of statement that writes slot %d %d time(s)", v, c2[v], distinct[0], c2[distinct[0]])
								}
							}
							if bad == "" && len(distinct) < K && len(distinct) > 1 && !blockAffine(distinct) {
								bad = fmt.Sprintf("the slots written by one kind of statement %v do not form a regular pattern (a lane is missing or duplicated)", distinct)
							}
							if bad == "" && len(distinct) == 1 && len(shapeOrder) > 1 && K > 1 {
								bad = fmt.Sprintf("slot %d is written by a statement of a different shape than the other slots", distinct[0])
							}
							if bad != "" {
								break
							}
						}
					}
					nWin++
					if bad != "" {
						out = append(out, violOb("LANE", ckey, c.Rel(ws[0].pos), fmt.Sprintf("%s: the unrolled writes to the %d-wide window %s do not cover it uniformly: %s", fkey, K, arr.Name(), bad)))
					} else {
						out = append(out, okOb("LANE", ckey, c.Rel(ws[0].pos), fmt.Sprintf("every index 0..%d of the window is written the same number of times (%d)", K-1, cnt[0]), true))
					}
					// orphans: a statement writing one window slot that belongs to no lane group
					for _, w := range ws {
						if w.selfComplete || used[w.stmt] {
							continue
						}
						okey := fmt.Sprintf("LANE:%s#orphan(%s[%d])@block%d", fkey, arr.Name(), w.idx, blockOrd(fd, n))
						out = append(out, violOb("LANE", okey, c.Rel(w.pos), fmt.Sprintf("%s: the statement writing %s[%d] is structurally unlike the neighbouring lanes of the same window (it belongs to no group of >= %d identical lanes)", fkey, arr.Name(), w.idx, minLanes)))
					}
				}
			}
			return true
		})
	})
	c.Stats["lane_windows"] = nWin
	c.Stats["lane_groups"] = nGroups
	return out
}

// oddLane returns the index of the single lane whose removal makes the sequence block-affine, or -1.
func oddLane(seq []int) int {
	for i := range seq {
		for _, delta := range []int{-16, -8, -4, -3, -2, -1, 1, 2, 3, 4, 8, 16} {
			t := append([]int(nil), seq...)
			t[i] += delta
			if blockAffine(t) {
				return i
			}
		}
	}
	return -1
}

func init() {
	core.Register(&core.Rule{Name: "LANE", Props: []string{"C01", "C02"},
		Doc: "inside every hand-unrolled statement group (>=4 structurally identical lanes with a progressing index), every identifier/operator/literal position is constant across lanes or block-affine in the lane number",
		Run: func(c *core.Ctx) []ob {
			out := scanLane(c)
			out = append(out, core.Floor("LANE", nil, "lane groups", c.Stats["lane_groups"], 60)...)
			out = append(out, control(c, "LANE", scanLane, "LANE:")...)
			return out
		}})
}

type winWrite struct {
	arr          types.Object
	k            int
	idx          int
	stmt         int
	pos          token.Pos
	selfComplete bool
}

// windowWrites lists, for the statements of one block, the assignments to constant indices of fixed-size arrays
// (or pointers to them) of length >= 7: the destinations of hand-unrolled lanes.
func windowWrites(info *types.Info, list []ast.Stmt) []winWrite {
	var out []winWrite
	for si, st := range list {
		var lhs []ast.Expr
		switch x := st.(type) {
		case *ast.AssignStmt:
			lhs = x.Lhs
		case *ast.IncDecStmt:
			lhs = []ast.Expr{x.X}
		default:
			continue
		}
		var ws []winWrite
		for _, l := range lhs {
			ix, ok := unparen(l).(*ast.IndexExpr)
			if !ok {
				continue
			}
			id, ok := unparen(ix.X).(*ast.Ident)
			if !ok {
				continue
			}
			obj := info.Uses[id]
			if obj == nil {
				continue
			}
			arr, ok := deref(obj.Type()).Underlying().(*types.Array)
			if !ok || arr.Len() < 7 {
				continue
			}
			tv, ok := info.Types[ix.Index]
			if !ok || tv.Value == nil {
				continue
			}
			lit, ok := unparen(ix.Index).(*ast.BasicLit)
			if !ok || lit.Kind != token.INT {
				continue
			}
			v, err := strconv.Atoi(lit.Value)
			if err != nil {
				continue
			}
			ws = append(ws, winWrite{arr: obj, k: int(arr.Len()), idx: v, stmt: si, pos: l.Pos()})
		}
		// a single statement that writes several distinct slots of one window is complete in itself
		perArr := map[types.Object]map[int]bool{}
		for _, w := range ws {
			if perArr[w.arr] == nil {
				perArr[w.arr] = map[int]bool{}
			}
			perArr[w.arr][w.idx] = true
		}
		for i := range ws {
			if len(perArr[ws[i].arr]) > 2 {
				ws[i].selfComplete = true
			}
		}
		out = append(out, ws...)
	}
	return out
}

// blockOrd numbers the blocks of a function in source order, so that keys do not depend on line numbers.
func blockOrd(fd *ast.FuncDecl, blk ast.Node) int {
	n := 0
	found := -1
	ast.Inspect(fd.Body, func(x ast.Node) bool {
		switch x.(type) {
		case *ast.BlockStmt, *ast.CaseClause:
			n++
			if x == blk {
				found = n
			}
		}
		return found < 0
	})
	return found
}
