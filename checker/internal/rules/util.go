// Package rules contains the repository-specific static rules of lvcheck.
package rules

import (
	"go/ast"
	"go/token"
	"go/types"
	"strings"

	"golang.org/x/tools/go/packages"

	"lvcheck/internal/core"
)

type ob = core.Obligation

func okOb(rule, key, pos, detail string, nontrivial bool) ob {
	return ob{Rule: rule, Key: key, Status: core.OK, Pos: pos, Detail: detail, NonTrivial: nontrivial}
}

func violOb(rule, key, pos, detail string) ob {
	return ob{Rule: rule, Key: key, Status: core.Violation, Pos: pos, Detail: detail}
}

func incOb(rule, key, pos, detail string) ob {
	return ob{Rule: rule, Key: key, Status: core.Incomplete, Pos: pos, Detail: detail}
}

func infoOb(rule, key, pos, detail string) ob {
	return ob{Rule: rule, Key: key, Status: core.Info, Pos: pos, Detail: detail}
}

func withProps(o ob, props ...string) ob {
	o.Props = props
	return o
}

// deref strips pointers.
func deref(t types.Type) types.Type {
	for {
		p, ok := t.(*types.Pointer)
		if !ok {
			return t
		}
		t = p.Elem()
	}
}

// namedOf returns the named type behind t (through pointers), or nil.
func namedOf(t types.Type) *types.Named {
	if t == nil {
		return nil
	}
	t = deref(t)
	if a, ok := t.(*types.Alias); ok {
		t = types.Unalias(a)
	}
	n, _ := t.(*types.Named)
	return n
}

// structOf returns the struct underlying t (through pointers and names).
func structOf(t types.Type) *types.Struct {
	if t == nil {
		return nil
	}
	s, _ := deref(t).Underlying().(*types.Struct)
	return s
}

func unparen(e ast.Expr) ast.Expr {
	for {
		p, ok := e.(*ast.ParenExpr)
		if !ok {
			return e
		}
		e = p.X
	}
}

// calleeFunc resolves the static callee of a call through type information.
func calleeFunc(info *types.Info, call *ast.CallExpr) *types.Func {
	fun := unparen(call.Fun)
	switch f := fun.(type) {
	case *ast.IndexExpr:
		fun = f.X
	case *ast.IndexListExpr:
		fun = f.X
	}
	switch f := fun.(type) {
	case *ast.Ident:
		if fn, ok := info.Uses[f].(*types.Func); ok {
			return fn
		}
		// a local that holds one method value or function for its whole life (mul := x.Mul; mul(a, b, c))
		if v, ok := info.Uses[f].(*types.Var); ok {
			if fn := localFnVals[v]; fn != nil {
				return fn
			}
		}
	case *ast.SelectorExpr:
		if sel := info.Selections[f]; sel != nil {
			if fn, ok := sel.Obj().(*types.Func); ok {
				return fn
			}
			return nil
		}
		if fn, ok := info.Uses[f.Sel].(*types.Func); ok {
			return fn
		}
	}
	return nil
}

// funcOrigin returns the generic origin of f.
func funcOrigin(f *types.Func) *types.Func {
	if f == nil {
		return nil
	}
	return f.Origin()
}

// calleeName returns the bare name of the callee (resolved), or "".
func calleeName(info *types.Info, call *ast.CallExpr) string {
	if f := calleeFunc(info, call); f != nil {
		return f.Name()
	}
	return ""
}

// isBuiltinCall reports whether call is a call to the named builtin.
func isBuiltinCall(info *types.Info, call *ast.CallExpr, name string) bool {
	id, ok := unparen(call.Fun).(*ast.Ident)
	if !ok {
		return false
	}
	b, ok := info.Uses[id].(*types.Builtin)
	return ok && b.Name() == name
}

// recvObj returns the receiver variable object of a method declaration.
func recvObj(info *types.Info, fd *ast.FuncDecl) *types.Var {
	if fd.Recv == nil || len(fd.Recv.List) == 0 || len(fd.Recv.List[0].Names) == 0 {
		return nil
	}
	v, _ := info.Defs[fd.Recv.List[0].Names[0]].(*types.Var)
	return v
}

// identObj returns the object an identifier expression refers to (use or def).
func identObj(info *types.Info, e ast.Expr) types.Object {
	id, ok := unparen(e).(*ast.Ident)
	if !ok {
		return nil
	}
	if o := info.Uses[id]; o != nil {
		return o
	}
	return info.Defs[id]
}

// rootIdent returns the identifier at the root of a selector/index/star/slice chain.
func rootIdent(e ast.Expr) *ast.Ident {
	for {
		switch x := e.(type) {
		case *ast.Ident:
			return x
		case *ast.SelectorExpr:
			e = x.X
		case *ast.IndexExpr:
			e = x.X
		case *ast.SliceExpr:
			e = x.X
		case *ast.StarExpr:
			e = x.X
		case *ast.ParenExpr:
			e = x.X
		case *ast.UnaryExpr:
			if x.Op == token.AND {
				e = x.X
			} else {
				return nil
			}
		case *ast.TypeAssertExpr:
			e = x.X
		case *ast.CallExpr:
			// method call chain such as x.El().Value: follow the receiver
			if s, ok := x.Fun.(*ast.SelectorExpr); ok {
				e = s.X
			} else {
				return nil
			}
		default:
			return nil
		}
	}
}

// exprString renders an expression compactly (types.ExprString elides literals' bodies, good enough for messages).
func exprString(e ast.Expr) string {
	if e == nil {
		return ""
	}
	return types.ExprString(e)
}

// fileIsTestSupport reports whether pos lies in a non-_test fixture file.
func fileIsTestSupport(p *core.Program, pos token.Pos) bool {
	return core.IsTestSupportFile(p.Fset.Position(pos).Filename)
}

// inExamples reports whether the package is under examples/.
func inExamples(pk *packages.Package) bool {
	return strings.HasPrefix(core.ShortPkg(pk.PkgPath), "examples")
}

// docText returns the doc comment text of a func decl.
func docText(fd *ast.FuncDecl) string {
	if fd.Doc == nil {
		return ""
	}
	return fd.Doc.Text()
}

// implementsErr reports whether t is the builtin error type.
func isErrorType(t types.Type) bool {
	return types.Identical(t, types.Universe.Lookup("error").Type())
}

// fieldOrigin canonicalises a field variable across generic instantiations.
func fieldOrigin(v *types.Var) *types.Var {
	if v == nil {
		return nil
	}
	return v.Origin()
}

// walkStmts visits every node under n, not descending into function literals unless intoLits.
func inspectNoLits(n ast.Node, f func(ast.Node) bool) {
	ast.Inspect(n, func(m ast.Node) bool {
		if _, ok := m.(*ast.FuncLit); ok && m != n {
			return false
		}
		return f(m)
	})
}

func sortedKeys[M ~map[string]V, V any](m M) []string {
	ks := make([]string, 0, len(m))
	for k := range m {
		ks = append(ks, k)
	}
	sortStrings(ks)
	return ks
}

func sortStrings(s []string) {
	for i := 1; i < len(s); i++ {
		for j := i; j > 0 && s[j] < s[j-1]; j-- {
			s[j], s[j-1] = s[j-1], s[j]
		}
	}
}

// holdsAt returns the conditions known to hold at node n because of the branches enclosing it, each with its polarity:
// the condition of an `if` whose then-branch contains n (true) or whose else-branch does (false), and the single test of
// the clause of a tagless switch that contains n (true). The if- and the switch-spelling of a guard are the same guard.
type heldCond struct {
	cond ast.Expr
	pos  bool
}

func holdsAt(pm map[ast.Node]ast.Node, n ast.Node) []heldCond {
	var out []heldCond
	var child ast.Node = n
	for p := pm[child]; p != nil; child, p = p, pm[p] {
		switch x := p.(type) {
		case *ast.IfStmt:
			if x.Body == child {
				out = append(out, heldCond{x.Cond, true})
			} else if x.Else == child {
				out = append(out, heldCond{x.Cond, false})
			}
		case *ast.CaseClause:
			if sw, ok := pm[pm[p]].(*ast.SwitchStmt); ok && sw.Tag == nil && len(x.List) == 1 {
				out = append(out, heldCond{x.List[0], true})
			}
		}
	}
	return out
}

// equalitiesOf returns the equality comparisons (a == b) that hold when cond has the given truth value: a == b under
// true (also inside a conjunction), a != b under false (also inside a disjunction).
func equalitiesOf(cond ast.Expr, truth bool) []*ast.BinaryExpr {
	var out []*ast.BinaryExpr
	var walk func(e ast.Expr, t bool)
	walk = func(e ast.Expr, t bool) {
		switch x := unparen(e).(type) {
		case *ast.BinaryExpr:
			switch {
			case x.Op == token.EQL && t, x.Op == token.NEQ && !t:
				out = append(out, x)
			case x.Op == token.LAND && t, x.Op == token.LOR && !t:
				walk(x.X, t)
				walk(x.Y, t)
			}
		case *ast.UnaryExpr:
			if x.Op == token.NOT {
				walk(x.X, !t)
			}
		}
	}
	walk(cond, truth)
	return out
}

// forwardingCall recognises a method body that forwards to one package-level function: an optional prefix of local
// definitions that only read the receiver's fields (`q, mrc := s.Modulus, s.MRedConstant`) followed by the call. It
// returns the call and its arguments with those locals replaced by the field expressions they stand for.
func forwardingCall(info *types.Info, fd *ast.FuncDecl) (*ast.CallExpr, []ast.Expr) {
	if fd.Body == nil || len(fd.Body.List) == 0 {
		return nil, nil
	}
	subst := map[types.Object]ast.Expr{}
	for _, st := range fd.Body.List[:len(fd.Body.List)-1] {
		as, ok := st.(*ast.AssignStmt)
		if ok && as.Tok == token.DEFINE && len(as.Rhs) == 1 && len(as.Lhs) > 1 {
			// q, mrc := s.montgomeryParams() with an accessor that returns fields of its receiver
			if rets := fieldAccessorResults(info, as.Rhs[0]); len(rets) == len(as.Lhs) {
				for i, l := range as.Lhs {
					if id, ok := l.(*ast.Ident); ok {
						subst[info.Defs[id]] = rets[i]
					}
				}
				continue
			}
		}
		if !ok || as.Tok != token.DEFINE || len(as.Lhs) != len(as.Rhs) {
			return nil, nil
		}
		for i, l := range as.Lhs {
			id, ok := l.(*ast.Ident)
			if !ok {
				return nil, nil
			}
			if _, isSel := unparen(as.Rhs[i]).(*ast.SelectorExpr); !isSel {
				return nil, nil
			}
			subst[info.Defs[id]] = as.Rhs[i]
		}
	}
	es, ok := fd.Body.List[len(fd.Body.List)-1].(*ast.ExprStmt)
	if !ok {
		return nil, nil
	}
	call, ok := es.X.(*ast.CallExpr)
	if !ok {
		return nil, nil
	}
	// the call goes through a helper that receives the kernel as a function value and adds the receiver's constants:
	// s.montgomery3(kernel, p1, p2, p3) with montgomery3's body `kernel(p1, p2, p3, s.Modulus, s.MRedConstant)`
	if h := calleeFunc(info, call); h != nil {
		if hd := fnDecls[h]; hd != nil && hd.Recv != nil && hd.Body != nil && len(hd.Body.List) == 1 {
			if hes, ok := hd.Body.List[0].(*ast.ExprStmt); ok {
				if hcall, ok := hes.X.(*ast.CallExpr); ok {
					if fid, ok := unparen(hcall.Fun).(*ast.Ident); ok {
						hpar := map[types.Object]int{}
						k := 0
						for _, fl := range hd.Type.Params.List {
							for _, nm := range fl.Names {
								hpar[info.Defs[nm]] = k
								k++
							}
						}
						if fi, isParam := hpar[info.Uses[fid]]; isParam && k == len(call.Args) {
							okAll := true
							args := make([]ast.Expr, len(hcall.Args))
							for i, a := range hcall.Args {
								args[i] = a
								if id, ok := unparen(a).(*ast.Ident); ok {
									if pi, isP := hpar[info.Uses[id]]; isP {
										args[i] = call.Args[pi]
										if id2, ok := unparen(args[i]).(*ast.Ident); ok {
											if r, ok := subst[info.Uses[id2]]; ok {
												args[i] = r
											}
										}
									} else {
										okAll = false
									}
								} else if _, isSel := unparen(a).(*ast.SelectorExpr); !isSel {
									okAll = false
								}
							}
							if okAll {
								return &ast.CallExpr{Fun: call.Args[fi], Lparen: call.Lparen, Args: args, Rparen: call.Rparen}, args
							}
						}
					}
				}
			}
		}
	}
	args := make([]ast.Expr, len(call.Args))
	for i, a := range call.Args {
		args[i] = a
		if id, ok := unparen(a).(*ast.Ident); ok {
			if r, ok := subst[info.Uses[id]]; ok {
				args[i] = r
			}
		}
	}
	return call, args
}

// fnDecls: every function declaration with a body, by its object (program-wide, filled before the rules run).
var fnDecls = map[*types.Func]*ast.FuncDecl{}

// fieldAccessorResults: for a call of a method whose whole body returns fields of its receiver (`return s.Modulus,
// s.MRedConstant`, or named results assigned from such fields followed by a bare return), the returned field expressions.
func fieldAccessorResults(info *types.Info, e ast.Expr) []ast.Expr {
	call, ok := unparen(e).(*ast.CallExpr)
	if !ok || len(call.Args) != 0 {
		return nil
	}
	f := calleeFunc(info, call)
	if f == nil {
		return nil
	}
	d := fnDecls[f]
	if d == nil || d.Recv == nil || d.Body == nil || len(d.Recv.List) != 1 || len(d.Recv.List[0].Names) != 1 {
		return nil
	}
	recvName := d.Recv.List[0].Names[0].Name
	isField := func(x ast.Expr) bool {
		sel, ok := unparen(x).(*ast.SelectorExpr)
		if !ok {
			return false
		}
		id, ok := unparen(sel.X).(*ast.Ident)
		return ok && id.Name == recvName
	}
	var rets []ast.Expr
	switch len(d.Body.List) {
	case 1:
		r, ok := d.Body.List[0].(*ast.ReturnStmt)
		if !ok {
			return nil
		}
		rets = r.Results
	case 2:
		as, ok := d.Body.List[0].(*ast.AssignStmt)
		r, ok2 := d.Body.List[1].(*ast.ReturnStmt)
		if !ok || !ok2 || len(r.Results) != 0 || as.Tok != token.ASSIGN || len(as.Lhs) != len(as.Rhs) || d.Type.Results == nil {
			return nil
		}
		var names []string
		for _, fl := range d.Type.Results.List {
			for _, nm := range fl.Names {
				names = append(names, nm.Name)
			}
		}
		if len(names) != len(as.Lhs) {
			return nil
		}
		for i, l := range as.Lhs {
			id, ok := l.(*ast.Ident)
			if !ok || id.Name != names[i] {
				return nil
			}
		}
		rets = as.Rhs
	default:
		return nil
	}
	for _, r := range rets {
		if !isField(r) {
			return nil
		}
	}
	return rets
}

// localFnVals: locals defined exactly once, by a method value or a function name (program-wide, filled before the rules
// run): a call through such a local is a static call.
var localFnVals = map[*types.Var]*types.Func{}

// localFnLits: locals defined exactly once by a function literal (closures called by name later in the function).
var localFnLits = map[*types.Var]*ast.FuncLit{}

func init() {
	core.PreRun = append(core.PreRun, func(p *core.Program) {
		fill := func(pk *packages.Package) {
			info := pk.TypesInfo
			for _, file := range pk.Syntax {
				for _, d := range file.Decls {
					if fd, ok := d.(*ast.FuncDecl); ok && fd.Body != nil {
						if o, ok := info.Defs[fd.Name].(*types.Func); ok {
							fnDecls[o] = fd
						}
					}
				}
			}
			count := map[*types.Var]int{}
			target := map[*types.Var]*types.Func{}
			lits := map[*types.Var]*ast.FuncLit{}
			for _, file := range pk.Syntax {
				ast.Inspect(file, func(n ast.Node) bool {
					as, ok := n.(*ast.AssignStmt)
					if !ok {
						return true
					}
					for i, l := range as.Lhs {
						id, ok := l.(*ast.Ident)
						if !ok {
							continue
						}
						v, _ := info.Defs[id].(*types.Var)
						if v == nil {
							v, _ = info.Uses[id].(*types.Var)
						}
						if v == nil {
							continue
						}
						if _, isFn := v.Type().Underlying().(*types.Signature); !isFn {
							continue
						}
						count[v]++
						if len(as.Lhs) != len(as.Rhs) {
							continue
						}
						switch r := unparen(as.Rhs[i]).(type) {
						case *ast.SelectorExpr:
							if sel := info.Selections[r]; sel != nil && sel.Kind() == types.MethodVal {
								if fn, ok := sel.Obj().(*types.Func); ok {
									target[v] = fn
								}
							} else if fn, ok := info.Uses[r.Sel].(*types.Func); ok {
								target[v] = fn
							}
						case *ast.Ident:
							if fn, ok := info.Uses[r].(*types.Func); ok {
								target[v] = fn
							}
						case *ast.FuncLit:
							lits[v] = r
						}
					}
					return true
				})
			}
			for v, n := range count {
				if n == 1 && target[v] != nil && v.Parent() != nil && v.Parent() != pk.Types.Scope() {
					localFnVals[v] = target[v]
				}
				if n == 1 && lits[v] != nil && v.Parent() != nil && v.Parent() != pk.Types.Scope() {
					localFnLits[v] = lits[v]
				}
			}
		}
		for _, pk := range p.Pkgs {
			fill(pk)
		}
	})
}

// singleDefOf returns the expression a local is defined by when it is assigned exactly once in fd (nil otherwise).
func singleDefOf(info *types.Info, fd *ast.FuncDecl, o types.Object) ast.Expr {
	if o == nil || fd == nil || fd.Body == nil {
		return nil
	}
	n := 0
	var def ast.Expr
	ast.Inspect(fd.Body, func(x ast.Node) bool {
		switch v := x.(type) {
		case *ast.AssignStmt:
			for i, l := range v.Lhs {
				id, ok := l.(*ast.Ident)
				if !ok {
					continue
				}
				lo := info.Defs[id]
				if lo == nil {
					lo = info.Uses[id]
				}
				if lo == o {
					n++
					if len(v.Lhs) == len(v.Rhs) {
						def = v.Rhs[i]
					}
				}
			}
		case *ast.ValueSpec:
			for i, nm := range v.Names {
				if info.Defs[nm] == o {
					n++
					if i < len(v.Values) {
						def = v.Values[i]
					}
				}
			}
		}
		return true
	})
	if n == 1 {
		return def
	}
	return nil
}

// isIntType: a (named or plain) integer type.
func isIntType(t types.Type) bool {
	b, ok := t.Underlying().(*types.Basic)
	return ok && b.Info()&types.IsInteger != 0
}
