package rules

import (
	"fmt"
	"go/ast"
	"go/token"
	"go/types"
	"sort"
	"strings"

	"golang.org/x/tools/go/packages"

	"lvcheck/internal/core"
)

// GUARDIDX — a presence test is made on the elements the guarded block uses.
//
// `if cts[j] != nil || cts[j+1] != nil { Merge(cts[j], cts[j+t], …); cts[j+t] = nil }`: the partner of j in the tree is
// j+t, the guard looks at j+1. With a sparse index set the pair (nil, non-nil) at distance t is skipped and a
// ciphertext is dropped from the result without any error.
//
// Rule: for every if-condition that compares elements of one container with nil (`B[e] != nil`, `B[e] == nil`), let T
// be the index expressions tested and U the index expressions with which the guarded block (and the else arm)
// addresses B. If some tested index is never used and some used index is never tested, the test and the use disagree.
func scanGuardIdx(c *core.Ctx) []ob {
	var out []ob
	n := 0
	c.FuncDecls(func(pk *packages.Package, file *ast.File, fd *ast.FuncDecl) {
		if fd.Body == nil || fileIsTestSupport(c.Program, fd.Pos()) || inExamples(pk) {
			return
		}
		info := pk.TypesInfo
		fkey := core.FuncKey(pk, fd)
		ast.Inspect(fd.Body, func(x ast.Node) bool {
			is, ok := x.(*ast.IfStmt)
			if !ok {
				return true
			}
			// tested elements, per container
			tested := map[string]map[string]bool{}
			ast.Inspect(is.Cond, func(y ast.Node) bool {
				be, ok := y.(*ast.BinaryExpr)
				if !ok || (be.Op != token.NEQ && be.Op != token.EQL) {
					return true
				}
				var el ast.Expr
				if isNilIdent(be.Y) {
					el = be.X
				} else if isNilIdent(be.X) {
					el = be.Y
				}
				ix, ok := unparen(el).(*ast.IndexExpr)
				if el == nil || !ok {
					return true
				}
				if _, isMap := info.TypeOf(ix.X).Underlying().(*types.Map); isMap {
					return true // a key looked up is not a position
				}
				b := exprString(ix.X)
				if tested[b] == nil {
					tested[b] = map[string]bool{}
				}
				tested[b][exprString(ix.Index)] = true
				return true
			})
			for _, b := range sortedKeys(tested) {
				T := tested[b]
				n++
				used := map[string]bool{}
				var firstUse token.Pos
				scan := func(nd ast.Node) {
					if nd == nil {
						return
					}
					ast.Inspect(nd, func(y ast.Node) bool {
						if ix, ok := y.(*ast.IndexExpr); ok && exprString(ix.X) == b {
							k := exprString(ix.Index)
							if !used[k] && !T[k] && firstUse == token.NoPos {
								firstUse = ix.Pos()
							}
							used[k] = true
						}
						return true
					})
				}
				scan(is.Body)
				if is.Else != nil {
					scan(is.Else)
				}
				var unusedT, untestedU []string
				for k := range T {
					if !used[k] {
						unusedT = append(unusedT, k)
					}
				}
				for k := range used {
					if !T[k] {
						untestedU = append(untestedU, k)
					}
				}
				sort.Strings(unusedT)
				sort.Strings(untestedU)
				key := fmt.Sprintf("GUARDIDX:%s#%s[%s]", fkey, b, strings.Join(sortedKeys(T), ","))
				if len(unusedT) > 0 && len(untestedU) > 0 {
					out = append(out, withProps(violOb("GUARDIDX", key, c.Rel(is.Pos()), fmt.Sprintf("%s: the condition at %s tests %s[%s] for nil but the guarded block never uses it and addresses %s[%s] instead (%s): the presence test and the use disagree, so an element present only at the index that is used is skipped", fkey, c.Rel(is.Pos()), b, strings.Join(unusedT, "], "+b+"["), b, strings.Join(untestedU, "], "+b+"["), c.Rel(firstUse))), propsForKey(fkey)...))
				}
			}
			return true
		})
	})
	c.Stats["guardidx_tests"] = n
	out = append(out, okOb("GUARDIDX", "GUARDIDX:module", "", fmt.Sprintf("%d presence tests on container elements examined", n), true))
	return out
}

func init() {
	core.Register(&core.Rule{Name: "GUARDIDX", Wide: true, Props: []string{"C04", "C11", "C12"},
		Doc: "an if-condition that tests elements of a container for nil tests the elements its block uses: no tested index that is never used together with a used index that is never tested",
		Run: func(c *core.Ctx) []ob {
			out := scanGuardIdx(c)
			for i := range out {
				if out[i].Key == "GUARDIDX:module" {
					out[i] = withProps(out[i], "C04", "C11", "C12")
				}
			}
			for _, o := range core.Floor("GUARDIDX", nil, "presence tests on container elements", c.Stats["guardidx_tests"], 20) {
				out = append(out, withProps(o, "C04"))
			}
			for _, o := range control(c, "GUARDIDX", scanGuardIdx, "lvfixture.mergeTree") {
				out = append(out, withProps(o, "C04"))
			}
			return out
		}})
}

// OUTPATH — every successful exit of an operation with a distinct receiver has produced the receiver's data.
//
// `RescaleTo(op0, scale, opOut)`: `*opOut.MetaData = *op0.MetaData` at the top, then
// `if nbRescales == 0 { return nil }` — tidied from `if nbRescales > 0 { … } else if op0 != opOut { opOut.Copy(op0) }`.
// On the no-op path a distinct receiver now carries the metadata of op0 and the polynomials of whatever it held.
//
// Rule (must-analysis over the control-flow graph): in an exported method of an evaluator that has a parameter named
// opOut and that writes the metadata of opOut from an operand (`*opOut.MetaData = *opX.MetaData`, or field by field),
// every return that is not a failing return is reached only through paths on which the data of opOut was written — a
// call that receives opOut (or a component of it) as an argument, a method of opOut that stores (Copy, CopyLvl, …), an
// assignment into opOut.Value — or on which the receiver was compared with the operand (the in-place case is then
// handled deliberately).
func scanOutPath(c *core.Ctx) []ob {
	var out []ob
	n := 0
	c.FuncDecls(func(pk *packages.Package, file *ast.File, fd *ast.FuncDecl) {
		rel := core.ShortPkg(pk.PkgPath)
		if fd.Body == nil || fd.Recv == nil || !fd.Name.IsExported() || fileIsTestSupport(c.Program, fd.Pos()) {
			return
		}
		if !(c.IsFixture || strings.HasPrefix(rel, "schemes/") || strings.HasPrefix(rel, "core/rlwe") || strings.HasPrefix(rel, "circuits/")) {
			return
		}
		info := pk.TypesInfo
		fn, _ := info.Defs[fd.Name].(*types.Func)
		if fn == nil {
			return
		}
		sig := fn.Type().(*types.Signature)
		var outP *types.Var
		for i := 0; i < sig.Params().Len(); i++ {
			if p := sig.Params().At(i); p.Name() == "opOut" && isMetaCarrier(p.Type()) {
				outP = p
			}
		}
		if outP == nil {
			return
		}
		rooted := func(e ast.Expr) bool {
			id := rootIdent(e)
			return id != nil && info.Uses[id] == types.Object(outP)
		}
		// does the function hand the metadata of an operand to the receiver?
		metaFromOperand := false
		ast.Inspect(fd.Body, func(x ast.Node) bool {
			as, ok := x.(*ast.AssignStmt)
			if !ok || len(as.Lhs) != 1 || len(as.Rhs) != 1 {
				return true
			}
			if rooted(as.Lhs[0]) && strings.Contains(exprString(as.Lhs[0]), "MetaData") {
				if id := rootIdent(as.Rhs[0]); id != nil && info.Uses[id] != types.Object(outP) {
					if _, isParam := info.Uses[id].(*types.Var); isParam && strings.Contains(exprString(as.Rhs[0]), "MetaData") {
						metaFromOperand = true
					}
				}
			}
			return true
		})
		if !metaFromOperand {
			return
		}
		_, errRes := lastResultIsError(sig)
		pm := parentMap(fd)
		g := buildCFG(info, fd.Body)
		writes := func(nd ast.Node) bool {
			w := false
			ast.Inspect(nd, func(x ast.Node) bool {
				if w {
					return false
				}
				switch v := x.(type) {
				case *ast.FuncLit:
					return false
				case *ast.CallExpr:
					if isBuiltinCall(info, v, "len") || isBuiltinCall(info, v, "cap") {
						return true
					}
					for _, a := range v.Args {
						if rooted(a) {
							w = true
						}
					}
					if s, ok := unparen(v.Fun).(*ast.SelectorExpr); ok && rooted(s.X) {
						switch s.Sel.Name {
						case "Copy", "CopyLvl", "CopyNew", "Zero", "CopyValues":
							w = true
						}
					}
				case *ast.AssignStmt:
					for _, l := range v.Lhs {
						if rooted(l) && strings.Contains(exprString(l), ".Value") {
							w = true
						}
					}
				case *ast.BinaryExpr:
					// the receiver compared with an operand: the in-place case is looked at
					if v.Op == token.EQL || v.Op == token.NEQ {
						if (rooted(v.X) && !isNilIdent(v.Y)) || (rooted(v.Y) && !isNilIdent(v.X)) {
							if _, plainX := unparen(v.X).(*ast.Ident); plainX {
								if _, plainY := unparen(v.Y).(*ast.Ident); plainY {
									w = true
								}
							}
						}
					}
				}
				return true
			})
			return w
		}
		// state: bit 0 = the metadata of opOut may have been taken from an operand, bit 1 = the data of opOut may have
		// been written (may on both: a return is reported only when no path at all wrote the data before it, which
		// keeps loops and data-dependent branches out of the picture)
		metaW := func(nd ast.Node) bool {
			m := false
			ast.Inspect(nd, func(x ast.Node) bool {
				if as, ok := x.(*ast.AssignStmt); ok && len(as.Lhs) == 1 && len(as.Rhs) == 1 {
					if rooted(as.Lhs[0]) && strings.Contains(exprString(as.Lhs[0]), "MetaData") && strings.Contains(exprString(as.Rhs[0]), "MetaData") && !rooted(as.Rhs[0]) {
						m = true
					}
				}
				return !m
			})
			return m
		}
		step := func(nd ast.Node, s int) int {
			if metaW(nd) {
				s |= 1
			}
			if writes(nd) {
				s |= 2
			}
			return s
		}
		in := forward(g, 0, func() int { return 0 }, step,
			func(a, b int) int { return a | b },
			func(a, b int) bool { return a == b })
		n++
		fkey := core.FuncKey(pk, fd)
		key := "OUTPATH:" + fkey
		var bad []string
		var badPos token.Pos
		for _, b := range g.Blocks {
			s, ok := in[b]
			if !ok || !b.Live {
				continue
			}
			for _, nd := range b.Nodes {
				s = step(nd, s)
				if r, ok := nd.(*ast.ReturnStmt); ok {
					if returnIsFailing(info, pm, r, errRes) {
						continue
					}
					if s&1 != 0 && s&2 == 0 {
						bad = append(bad, c.Rel(r.Pos()))
						if badPos == token.NoPos {
							badPos = r.Pos()
						}
					}
				}
			}
		}
		if len(bad) > 0 {
			out = append(out, withProps(violOb("OUTPATH", key, c.Rel(badPos), fmt.Sprintf("%s hands the metadata of an operand to opOut but reaches the successful return at %s on a path that never writes the data of opOut nor compares it with the operand: a distinct receiver then carries the new metadata over its old polynomials", fkey, strings.Join(bad, ", "))), propsForKey(fkey)...))
		} else {
			out = append(out, withProps(okOb("OUTPATH", key, c.Rel(fd.Pos()), "no successful return is reached with the metadata handed over and the data of opOut untouched on every path", true), propsForKey(fkey)...))
		}
	})
	c.Stats["outpath_funcs"] = n
	return out
}

func init() {
	all := []string{"C04", "C05", "C06", "C09", "C11", "C12", "C13", "C18"}
	core.Register(&core.Rule{Name: "OUTPATH", Wide: true, Props: all,
		Doc: "an exported evaluator method that copies the metadata of an operand to opOut reaches every successful return only through paths that wrote the data of opOut (a call receiving it, Copy, a store into Value) or compared opOut with the operand",
		Run: func(c *core.Ctx) []ob {
			out := scanOutPath(c)
			for _, o := range core.Floor("OUTPATH", nil, "operations handing metadata to opOut", c.Stats["outpath_funcs"], 10) {
				out = append(out, withProps(o, "C06", "C09"))
			}
			for _, o := range control(c, "OUTPATH", scanOutPath, "(fixEvaluator).RescaleNoop") {
				out = append(out, withProps(o, "C06", "C09"))
			}
			return out
		}})
}
