package rules

import (
	"fmt"
	"go/ast"
	"go/token"
	"go/types"
	"sort"
	"strings"

	"golang.org/x/tools/go/packages"

	"lvcheck/internal/core"
)

// GUARDIDX — a presence test is made on the elements the guarded block uses.
//
// `if cts[j] != nil || cts[j+1] != nil { Merge(cts[j], cts[j+t], …); cts[j+t] = nil }`: the partner of j in the tree is
// j+t, the guard looks at j+1. With a sparse index set the pair (nil, non-nil) at distance t is skipped and a
// ciphertext is dropped from the result without any error.
//
// Rule: for every if-condition that compares elements of one container with nil (`B[e] != nil`, `B[e] == nil`), let T
// be the index expressions tested and U the index expressions with which the guarded block (and the else arm)
// addresses B. If some tested index is never used and some used index is never tested, the test and the use disagree.
func scanGuardIdx(c *core.Ctx) []ob {
	var out []ob
	n := 0
	c.FuncDecls(func(pk *packages.Package, file *ast.File, fd *ast.FuncDecl) {
		if fd.Body == nil || fileIsTestSupport(c.Program, fd.Pos()) || inExamples(pk) {
			return
		}
		_ = pk.TypesInfo
		fkey := core.FuncKey(pk, fd)
		ast.Inspect(fd.Body, func(x ast.Node) bool {
			is, ok := x.(*ast.IfStmt)
			if !ok {
				return true
			}
			// tested elements, per container
			tested := map[string]map[string]bool{}
			ast.Inspect(is.Cond, func(y ast.Node) bool {
				be, ok := y.(*ast.BinaryExpr)
				if !ok || (be.Op != token.NEQ && be.Op != token.EQL) {
					return true
				}
				var el ast.Expr
				if isNilIdent(be.Y) {
					el = be.X
				} else if isNilIdent(be.X) {
					el = be.Y
				}
				ix, ok := unparen(el).(*ast.IndexExpr)
				if el == nil || !ok {
					return true
				}
				b := exprString(ix.X)
				if tested[b] == nil {
					tested[b] = map[string]bool{}
				}
				tested[b][exprString(ix.Index)] = true
				return true
			})
			for _, b := range sortedKeys(tested) {
				T := tested[b]
				n++
				used := map[string]bool{}
				var firstUse token.Pos
				scan := func(nd ast.Node) {
					if nd == nil {
						return
					}
					ast.Inspect(nd, func(y ast.Node) bool {
						if ix, ok := y.(*ast.IndexExpr); ok && exprString(ix.X) == b {
							k := exprString(ix.Index)
							if !used[k] && !T[k] && firstUse == token.NoPos {
								firstUse = ix.Pos()
							}
							used[k] = true
						}
						return true
					})
				}
				scan(is.Body)
				if is.Else != nil {
					scan(is.Else)
				}
				var unusedT, untestedU []string
				for k := range T {
					if !used[k] {
						unusedT = append(unusedT, k)
					}
				}
				for k := range used {
					if !T[k] {
						untestedU = append(untestedU, k)
					}
				}
				sort.Strings(unusedT)
				sort.Strings(untestedU)
				key := fmt.Sprintf("GUARDIDX:%s#%s[%s]", fkey, b, strings.Join(sortedKeys(T), ","))
				if len(unusedT) > 0 && len(untestedU) > 0 {
					out = append(out, withProps(violOb("GUARDIDX", key, c.Rel(is.Pos()), fmt.Sprintf("%s: the condition at %s tests %s[%s] for nil but the guarded block never uses it and addresses %s[%s] instead (%s): the presence test and the use disagree, so an element present only at the index that is used is skipped", fkey, c.Rel(is.Pos()), b, strings.Join(unusedT, "], "+b+"["), b, strings.Join(untestedU, "], "+b+"["), c.Rel(firstUse))), propsForKey(fkey)...))
				}
			}
			return true
		})
	})
	c.Stats["guardidx_tests"] = n
	out = append(out, okOb("GUARDIDX", "GUARDIDX:module", "", fmt.Sprintf("%d presence tests on container elements examined", n), true))
	return out
}

func init() {
	core.Register(&core.Rule{Name: "GUARDIDX", Wide: true, Props: []string{"C04", "C11", "C12"},
		Doc: "an if-condition that tests elements of a container for nil tests the elements its block uses: no tested index that is never used together with a used index that is never tested",
		Run: func(c *core.Ctx) []ob {
			out := scanGuardIdx(c)
			for i := range out {
				if out[i].Key == "GUARDIDX:module" {
					out[i] = withProps(out[i], "C04", "C11", "C12")
				}
			}
			for _, o := range core.Floor("GUARDIDX", nil, "presence tests on container elements", c.Stats["guardidx_tests"], 20) {
				out = append(out, withProps(o, "C04"))
			}
			for _, o := range control(c, "GUARDIDX", scanGuardIdx, "lvfixture.mergeTree") {
				out = append(out, withProps(o, "C04"))
			}
			return out
		}})
}

// OUTPATH — every successful exit of an operation with a distinct receiver has produced the receiver's data.
//
// `RescaleTo(op0, scale, opOut)`: `*opOut.MetaData = *op0.MetaData` at the top, then
// `if nbRescales == 0 { return nil }` — tidied from `if nbRescales > 0 { … } else if op0 != opOut { opOut.Copy(op0) }`.
// On the no-op path a distinct receiver now carries the metadata of op0 and the polynomials of whatever it held.
//
// Rule (must-analysis over the control-flow graph): in an exported method of an evaluator that has a parameter named
// opOut and that writes the metadata of opOut from an operand (`*opOut.MetaData = *opX.MetaData`, or field by field),
// every return that is not a failing return is reached only through paths on which the data of opOut was written — a
// call that receives opOut (or a component of it) as an argument, a method of opOut that stores (Copy, CopyLvl, …), an
// assignment into opOut.Value — or on which the receiver was compared with the operand (the in-place case is then
// handled deliberately).
func scanOutPath(c *core.Ctx) []ob {
	var out []ob
	n := 0
	c.FuncDecls(func(pk *packages.Package, file *ast.File, fd *ast.FuncDecl) {
		rel := core.ShortPkg(pk.PkgPath)
		if fd.Body == nil || fd.Recv == nil || !fd.Name.IsExported() || fileIsTestSupport(c.Program, fd.Pos()) {
			return
		}
		if !(c.IsFixture || strings.HasPrefix(rel, "schemes/") || strings.HasPrefix(rel, "core/rlwe") || strings.HasPrefix(rel, "circuits/")) {
			return
		}
		info := pk.TypesInfo
		fn, _ := info.Defs[fd.Name].(*types.Func)
		if fn == nil {
			return
		}
		sig := fn.Type().(*types.Signature)
		var outP *types.Var
		for i := 0; i < sig.Params().Len(); i++ {
			if p := sig.Params().At(i); p.Name() == "opOut" && isMetaCarrier(p.Type()) {
				outP = p
			}
		}
		if outP == nil {
			return
		}
		// locals that are views of the receiver's data: `c0OutQP := ringqp.Poly{Q: opOut.Value[0], P: buff}`, `c0 := opOut.Value[0]`
		views := map[types.Object]bool{}
		ast.Inspect(fd.Body, func(x ast.Node) bool {
			// `for i, out := range opOut.Value`: the value variable is one of the receiver's polynomials
			if rs, ok := x.(*ast.RangeStmt); ok && rs.Value != nil && rs.Tok == token.DEFINE {
				if vid, ok := rs.Value.(*ast.Ident); ok && info.Defs[vid] != nil {
					if sel, ok := unparen(rs.X).(*ast.SelectorExpr); ok && sel.Sel.Name == "Value" {
						if rid := rootIdent(sel.X); rid != nil && (info.Uses[rid] == types.Object(outP) || views[info.Uses[rid]]) {
							views[info.Defs[vid]] = true
						}
					}
				}
				return true
			}
			as, ok := x.(*ast.AssignStmt)
			if !ok || as.Tok != token.DEFINE || len(as.Lhs) != len(as.Rhs) {
				return true
			}
			for i, l := range as.Lhs {
				id, ok := l.(*ast.Ident)
				if !ok || info.Defs[id] == nil {
					continue
				}
				if t := info.TypeOf(as.Rhs[i]); t != nil {
					if _, basic := t.Underlying().(*types.Basic); basic {
						continue
					}
				}
				ast.Inspect(as.Rhs[i], func(y ast.Node) bool {
					if sel, ok := y.(*ast.SelectorExpr); ok && sel.Sel.Name == "Value" {
						if rid := rootIdent(sel.X); rid != nil && (info.Uses[rid] == types.Object(outP) || views[info.Uses[rid]]) {
							views[info.Defs[id]] = true
						}
					}
					return true
				})
			}
			return true
		})
		rooted := func(e ast.Expr) bool {
			id := rootIdent(e)
			return id != nil && (info.Uses[id] == types.Object(outP) || views[info.Uses[id]])
		}
		// does the function hand the metadata of an operand to the receiver?
		metaFromOperand := false
		ast.Inspect(fd.Body, func(x ast.Node) bool {
			as, ok := x.(*ast.AssignStmt)
			if !ok || len(as.Lhs) != 1 || len(as.Rhs) != 1 {
				return true
			}
			if rooted(as.Lhs[0]) && strings.Contains(exprString(as.Lhs[0]), "MetaData") {
				if id := rootIdent(as.Rhs[0]); id != nil && info.Uses[id] != types.Object(outP) {
					if _, isParam := info.Uses[id].(*types.Var); isParam && strings.Contains(exprString(as.Rhs[0]), "MetaData") {
						metaFromOperand = true
					}
				}
			}
			return true
		})
		if !metaFromOperand {
			return
		}
		_, errRes := lastResultIsError(sig)
		pm := parentMap(fd)
		g := buildCFG(info, fd.Body)
		writes := func(nd ast.Node) bool {
			w := false
			ast.Inspect(nd, func(x ast.Node) bool {
				if w {
					return false
				}
				switch v := x.(type) {
				case *ast.FuncLit:
					return false
				case *ast.CallExpr:
					if isBuiltinCall(info, v, "len") || isBuiltinCall(info, v, "cap") {
						return true
					}
					for _, a := range v.Args {
						if rooted(a) {
							// the element, one of its polynomials or a view of them; not a number read from it (opOut.Level())
							if t := info.TypeOf(a); t != nil {
								if _, basic := t.Underlying().(*types.Basic); basic {
									continue
								}
							}
							w = true
						}
					}
					if s, ok := unparen(v.Fun).(*ast.SelectorExpr); ok && rooted(s.X) {
						switch s.Sel.Name {
						case "Copy", "CopyLvl", "CopyNew", "Zero", "CopyValues":
							w = true
						}
					}
				case *ast.AssignStmt:
					for _, l := range v.Lhs {
						if rooted(l) && strings.Contains(exprString(l), ".Value") {
							w = true
						}
					}
				case *ast.BinaryExpr:
					// the receiver compared with an operand: the in-place case is looked at
					if v.Op == token.EQL || v.Op == token.NEQ {
						if (rooted(v.X) && !isNilIdent(v.Y)) || (rooted(v.Y) && !isNilIdent(v.X)) {
							if _, plainX := unparen(v.X).(*ast.Ident); plainX {
								if _, plainY := unparen(v.Y).(*ast.Ident); plainY {
									w = true
								}
							}
						}
					}
				}
				return true
			})
			return w
		}
		// state: bit 0 = the metadata of opOut may have been taken from an operand, bit 1 = the data of opOut may have
		// been written (may on both: a return is reported only when no path at all wrote the data before it, which
		// keeps loops and data-dependent branches out of the picture)
		metaW := func(nd ast.Node) bool {
			m := false
			ast.Inspect(nd, func(x ast.Node) bool {
				if as, ok := x.(*ast.AssignStmt); ok && len(as.Lhs) == 1 && len(as.Rhs) == 1 {
					if rooted(as.Lhs[0]) && strings.Contains(exprString(as.Lhs[0]), "MetaData") && strings.Contains(exprString(as.Rhs[0]), "MetaData") && !rooted(as.Rhs[0]) {
						m = true
					}
				}
				return !m
			})
			return m
		}
		step := func(nd ast.Node, s int) int {
			if metaW(nd) {
				s |= 1
			}
			if writes(nd) {
				s |= 2
			}
			return s
		}
		in := forward(g, 0, func() int { return 0 }, step,
			func(a, b int) int { return a | b },
			func(a, b int) bool { return a == b })
		n++
		fkey := core.FuncKey(pk, fd)
		key := "OUTPATH:" + fkey
		var bad []string
		var badPos token.Pos
		for _, b := range g.Blocks {
			s, ok := in[b]
			if !ok || !b.Live {
				continue
			}
			for _, nd := range b.Nodes {
				s = step(nd, s)
				if r, ok := nd.(*ast.ReturnStmt); ok {
					if returnIsFailing(info, pm, r, errRes) {
						continue
					}
					if s&1 != 0 && s&2 == 0 {
						bad = append(bad, c.Rel(r.Pos()))
						if badPos == token.NoPos {
							badPos = r.Pos()
						}
					}
				}
			}
		}
		if len(bad) > 0 {
			out = append(out, withProps(violOb("OUTPATH", key, c.Rel(badPos), fmt.Sprintf("%s hands the metadata of an operand to opOut but reaches the successful return at %s on a path that never writes the data of opOut nor compares it with the operand: a distinct receiver then carries the new metadata over its old polynomials", fkey, strings.Join(bad, ", "))), propsForKey(fkey)...))
		} else {
			out = append(out, withProps(okOb("OUTPATH", key, c.Rel(fd.Pos()), "no successful return is reached with the metadata handed over and the data of opOut untouched on every path", true), propsForKey(fkey)...))
		}
	})
	c.Stats["outpath_funcs"] = n
	return out
}

func init() {
	all := []string{"C04", "C05", "C06", "C09", "C11", "C12", "C13", "C18"}
	core.Register(&core.Rule{Name: "OUTPATH", Wide: true, Props: all,
		Doc: "an exported evaluator method that copies the metadata of an operand to opOut reaches every successful return only through paths that wrote the data of opOut (a call receiving it, Copy, a store into Value) or compared opOut with the operand",
		Run: func(c *core.Ctx) []ob {
			out := scanOutPath(c)
			for _, o := range core.Floor("OUTPATH", nil, "operations handing metadata to opOut", c.Stats["outpath_funcs"], 10) {
				out = append(out, withProps(o, "C06", "C09"))
			}
			for _, o := range control(c, "OUTPATH", scanOutPath, "(fixEvaluator).RescaleNoop") {
				out = append(out, withProps(o, "C06", "C09"))
			}
			return out
		}})
}

// OUTVIEW — a result does not keep a view of an operand's storage.
//
// `opOut.Value[1] = ring.Poly{Coeffs: combined.Value[1].Coeffs[:level+1]}` instead of
// `opOut.Value[1].CopyLvl(level, combined.Value[1])`: the switched ciphertext shares the coefficients of the aggregated
// share, and changes when the share buffer is reused for the next ciphertext.
//
// Rule: in a function with an output parameter (named …Out / out), no assignment stores into a polynomial-carrying
// component of that parameter (`opOut.Value[i] = …`, `opOut.Value = …`) an expression that is a view — selectors,
// indexing, slicing, struct literals of such, no call — of the storage of another parameter of pointer, slice or
// polynomial type.
func scanOutView(c *core.Ctx) []ob {
	var out []ob
	n := 0
	c.FuncDecls(func(pk *packages.Package, file *ast.File, fd *ast.FuncDecl) {
		if fd.Body == nil || fileIsTestSupport(c.Program, fd.Pos()) || inExamples(pk) {
			return
		}
		info := pk.TypesInfo
		fn, _ := info.Defs[fd.Name].(*types.Func)
		if fn == nil {
			return
		}
		sig := fn.Type().(*types.Signature)
		outs := map[types.Object]bool{}
		params := map[types.Object]bool{}
		for i := 0; i < sig.Params().Len(); i++ {
			p := sig.Params().At(i)
			params[p] = true
			if isOutParamName(p.Name()) && (polyish(p.Type()) || isMetaCarrier(p.Type())) {
				outs[p] = true
			}
		}
		if len(outs) == 0 {
			return
		}
		fkey := core.FuncKey(pk, fd)
		// views of another parameter inside an expression
		var viewOf func(e ast.Expr, depth int) types.Object
		viewOf = func(e ast.Expr, depth int) types.Object {
			if depth > 4 {
				return nil
			}
			e = unparen(e)
			if cl, ok := e.(*ast.CompositeLit); ok {
				for _, el := range cl.Elts {
					v := el
					if kv, ok := el.(*ast.KeyValueExpr); ok {
						v = kv.Value
					}
					if o := viewOf(v, depth+1); o != nil {
						return o
					}
				}
				return nil
			}
			if !isViewExpr(e) {
				return nil
			}
			t := info.TypeOf(e)
			if t == nil || !hasPointers(t, 0) {
				return nil
			}
			id := rootIdent(e)
			if id == nil {
				return nil
			}
			o := info.Uses[id]
			if params[o] && !outs[o] {
				if _, isIface := o.Type().Underlying().(*types.Interface); isIface {
					return nil
				}
				return o
			}
			return nil
		}
		ast.Inspect(fd.Body, func(x ast.Node) bool {
			as, ok := x.(*ast.AssignStmt)
			if !ok || len(as.Lhs) != len(as.Rhs) || as.Tok != token.ASSIGN {
				return true
			}
			for i, l := range as.Lhs {
				if _, plain := unparen(l).(*ast.Ident); plain {
					continue
				}
				id := rootIdent(l)
				if id == nil || !outs[info.Uses[id]] {
					continue
				}
				ls := exprString(l)
				// a polynomial, a list of polynomials or a list of residues (metadata copied by value is METASHARE's
				// business; element stores of residues are data, not views)
				lt := info.TypeOf(l)
				if lt == nil || !hasPointers(lt, 0) {
					continue
				}
				isPolyStore := polyish(lt)
				if sl, ok := lt.Underlying().(*types.Slice); ok {
					if inner, ok := sl.Elem().Underlying().(*types.Slice); ok && isUint64(inner.Elem()) {
						isPolyStore = true
					}
					if isUint64(sl.Elem()) {
						isPolyStore = true
					}
				}
				if !isPolyStore {
					continue
				}
				n++
				if src := viewOf(as.Rhs[i], 0); src != nil {
					out = append(out, withProps(violOb("OUTVIEW", fmt.Sprintf("OUTVIEW:%s#%s", fkey, ls), c.Rel(as.Pos()), fmt.Sprintf("%s makes %s a view of the storage of its operand %s (%s) instead of copying it: the result changes when the caller reuses or modifies that operand afterwards", fkey, ls, src.Name(), exprString(as.Rhs[i]))), propsForKey(fkey)...))
				}
			}
			return true
		})
	})
	c.Stats["outview_stores"] = n
	out = append(out, okOb("OUTVIEW", "OUTVIEW:module", "", fmt.Sprintf("%d rebindings of a component of an output parameter examined, none keeps a view of another operand", n), true))
	return out
}

func init() {
	all := []string{"C04", "C09", "C14", "C15", "C16", "C11", "C12"}
	core.Register(&core.Rule{Name: "OUTVIEW", Wide: true, Props: all,
		Doc: "no assignment rebinds a polynomial-carrying component of an output parameter (opOut.Value[i] = …) to a view (selectors, indexing, slicing, struct literals of these, no call) of the storage of another parameter",
		Run: func(c *core.Ctx) []ob {
			out := scanOutView(c)
			for i := range out {
				if out[i].Key == "OUTVIEW:module" {
					out[i] = withProps(out[i], all...)
				}
			}
			for _, o := range control(c, "OUTVIEW", scanOutView, "lvfixture.switchInto") {
				out = append(out, withProps(o, "C16", "C09"))
			}
			return out
		}})
}

// FLOATU64 — a value multiplied by a scale is not squeezed through a float-to-integer conversion.
//
// `uint64(scale*value+0.5) % Q` replaces a big.Float rounding "to save two allocations": as soon as scale*|value|
// reaches 2^64 (a scale proportional to a modulus of two primes) the conversion saturates and the encoded value is
// 2^63 whatever the input.
//
// Rule: no conversion to uint64/int64/int/uint of a float64 expression that contains a product with an operand whose
// name contains "scale" (a scaling factor is of the order of a modulus: the product has no reason to fit 64 bits),
// unless the function compares that operand or the product with a bound first.
func scanFloatU64(c *core.Ctx) []ob {
	var out []ob
	n := 0
	c.FuncDecls(func(pk *packages.Package, file *ast.File, fd *ast.FuncDecl) {
		rel := core.ShortPkg(pk.PkgPath)
		if fd.Body == nil || fileIsTestSupport(c.Program, fd.Pos()) || inExamples(pk) || strings.HasPrefix(rel, "utils/") {
			return
		}
		info := pk.TypesInfo
		fkey := core.FuncKey(pk, fd)
		ast.Inspect(fd.Body, func(x ast.Node) bool {
			call, ok := x.(*ast.CallExpr)
			if !ok || len(call.Args) != 1 {
				return true
			}
			tv, ok := info.Types[call.Fun]
			if !ok || !tv.IsType() {
				return true
			}
			b, ok := tv.Type.Underlying().(*types.Basic)
			if !ok || b.Info()&types.IsInteger == 0 {
				return true
			}
			at, ok := info.TypeOf(call.Args[0]).Underlying().(*types.Basic)
			if !ok || at.Info()&types.IsFloat == 0 {
				return true
			}
			if av, ok := info.Types[call.Args[0]]; ok && av.Value != nil {
				return true // a constant
			}
			n++
			scaled := ""
			ast.Inspect(call.Args[0], func(y ast.Node) bool {
				be, ok := y.(*ast.BinaryExpr)
				if !ok || be.Op != token.MUL {
					return true
				}
				for _, e := range []ast.Expr{be.X, be.Y} {
					if id := rootIdent(e); id != nil && strings.Contains(strings.ToLower(exprString(e)), "scale") {
						scaled = exprString(e)
					}
				}
				return true
			})
			if scaled == "" {
				return true
			}
			// a bound on the operand or on the product checked in the function
			bounded := false
			ast.Inspect(fd.Body, func(y ast.Node) bool {
				if is, ok := y.(*ast.IfStmt); ok {
					if strings.Contains(exprString(is.Cond), scaled) {
						if be, ok := unparen(is.Cond).(*ast.BinaryExpr); ok && (be.Op == token.GTR || be.Op == token.GEQ || be.Op == token.LSS || be.Op == token.LEQ) {
							bounded = true
						}
					}
				}
				return !bounded
			})
			if bounded {
				return true
			}
			out = append(out, withProps(violOb("FLOATU64", fmt.Sprintf("FLOATU64:%s#%s", fkey, exprString(call)), c.Rel(call.Pos()), fmt.Sprintf("%s converts %s to %s: a product with the scaling factor %s has no reason to stay below 2^64 (a scale of the order of a two-prime modulus), and the conversion of a larger float saturates silently", fkey, exprString(call.Args[0]), exprString(call.Fun), scaled)), propsForKey(fkey)...))
			return true
		})
	})
	c.Stats["floatu64_conversions"] = n
	out = append(out, okOb("FLOATU64", "FLOATU64:module", "", fmt.Sprintf("%d float-to-integer conversions examined, none of a product with a scaling factor", n), true))
	return out
}

func init() {
	all := []string{"C20", "C07", "C13", "C18", "C06"}
	core.Register(&core.Rule{Name: "FLOATU64", Wide: true, Props: all,
		Doc: "no float64 expression containing a product with an operand named …scale… is converted to an integer type, unless the function compares that operand with a bound",
		Run: func(c *core.Ctx) []ob {
			out := scanFloatU64(c)
			for i := range out {
				if out[i].Key == "FLOATU64:module" {
					out[i] = withProps(out[i], all...)
				}
			}
			for _, o := range control(c, "FLOATU64", scanFloatU64, "lvfixture.scaleUpFast") {
				out = append(out, withProps(o, "C20"))
			}
			return out
		}})
}

// OUTLEVEL1 — a working level taken from one operand is applied to the receiver.
//
// OUTLEVEL handles `level := utils.Min(a.Level(), opOut.Level())`. Some operations take their working level from one
// operand alone (`levelQ := op1.LevelQ()`: the external product is computed at the level of the RGSW ciphertext) and
// run every ring operation there. A receiver allocated at a higher level then keeps its upper residues, unrelated to
// the result, under a level that declares them valid.
//
// Rule: in a method with a parameter opOut, a local named level… defined as the Level()/LevelQ() of another parameter
// and used as the argument of an AtLevel call is also the level argument of a Resize of opOut, or opOut's level is
// compared with it, or opOut is handed together with it to a callee.
func scanOutLevel1(c *core.Ctx) []ob {
	var out []ob
	n := 0
	c.FuncDecls(func(pk *packages.Package, file *ast.File, fd *ast.FuncDecl) {
		rel := core.ShortPkg(pk.PkgPath)
		if fd.Body == nil || fd.Recv == nil || !fd.Name.IsExported() || fileIsTestSupport(c.Program, fd.Pos()) || !(c.IsFixture || strings.HasPrefix(rel, "schemes/") || strings.HasPrefix(rel, "core/") || strings.HasPrefix(rel, "circuits/")) {
			return
		}
		info := pk.TypesInfo
		fn, _ := info.Defs[fd.Name].(*types.Func)
		if fn == nil {
			return
		}
		sig := fn.Type().(*types.Signature)
		var outP *types.Var
		params := map[types.Object]bool{}
		for i := 0; i < sig.Params().Len(); i++ {
			p := sig.Params().At(i)
			params[p] = true
			if p.Name() == "opOut" && isMetaCarrier(p.Type()) {
				// a list of receivers (`opOut []*rlwe.Ciphertext`) is prepared element by element by the callee each
				// element is handed to, at the level that callee computes
				switch p.Type().Underlying().(type) {
				case *types.Slice, *types.Map:
					continue
				}
				outP = p
			}
		}
		if outP == nil {
			return
		}
		fkey := core.FuncKey(pk, fd)
		ast.Inspect(fd.Body, func(x ast.Node) bool {
			as, ok := x.(*ast.AssignStmt)
			if !ok || as.Tok != token.DEFINE || len(as.Lhs) != len(as.Rhs) {
				return true
			}
			for i, l := range as.Lhs {
				id, ok := l.(*ast.Ident)
				if !ok {
					continue
				}
				low := strings.ToLower(id.Name)
				if !strings.HasPrefix(low, "level") || strings.HasPrefix(low, "levelp") {
					continue
				}
				call, ok := unparen(as.Rhs[i]).(*ast.CallExpr)
				if !ok || len(call.Args) != 0 {
					continue
				}
				sel, ok := unparen(call.Fun).(*ast.SelectorExpr)
				if !ok || (sel.Sel.Name != "Level" && sel.Sel.Name != "LevelQ") {
					continue
				}
				src := rootIdent(sel.X)
				if src == nil || !params[info.Uses[src]] || info.Uses[src] == types.Object(outP) {
					continue
				}
				lv := info.Defs[id]
				if lv == nil {
					continue
				}
				// the level and the locals computed from it (`newLevel := levelIn - nbRescales`)
				lvSet := map[types.Object]bool{lv: true}
				for changed := true; changed; {
					changed = false
					ast.Inspect(fd.Body, func(y ast.Node) bool {
						a2, ok := y.(*ast.AssignStmt)
						if !ok || a2.Tok != token.DEFINE || len(a2.Lhs) != len(a2.Rhs) {
							return true
						}
						for k, l2 := range a2.Lhs {
							lid, ok := l2.(*ast.Ident)
							if !ok || info.Defs[lid] == nil || lvSet[info.Defs[lid]] {
								continue
							}
							if t := info.TypeOf(a2.Rhs[k]); t == nil || !isIntType(t) {
								continue
							}
							hit := false
							ast.Inspect(a2.Rhs[k], func(z ast.Node) bool {
								if zid, ok := z.(*ast.Ident); ok && lvSet[info.Uses[zid]] {
									hit = true
								}
								return !hit
							})
							if hit {
								lvSet[info.Defs[lid]] = true
								changed = true
							}
						}
						return true
					})
				}
				mentionsLv := func(e ast.Node) bool {
					f := false
					ast.Inspect(e, func(y ast.Node) bool {
						if yid, ok := y.(*ast.Ident); ok && lvSet[info.Uses[yid]] {
							f = true
						}
						return !f
					})
					return f
				}
				mentionsOut := func(e ast.Node) bool {
					f := false
					ast.Inspect(e, func(y ast.Node) bool {
						if yid, ok := y.(*ast.Ident); ok && info.Uses[yid] == types.Object(outP) {
							f = true
						}
						return !f
					})
					return f
				}
				// locals holding opOut's own level (`if lvlOut := opOut.Level(); lvlOut < level`)
				outLevels := map[types.Object]bool{}
				ast.Inspect(fd.Body, func(y ast.Node) bool {
					if a2, ok := y.(*ast.AssignStmt); ok && a2.Tok == token.DEFINE && len(a2.Lhs) == len(a2.Rhs) {
						for k, r := range a2.Rhs {
							cl, ok := unparen(r).(*ast.CallExpr)
							if !ok || len(cl.Args) != 0 {
								continue
							}
							if s2, ok := unparen(cl.Fun).(*ast.SelectorExpr); ok && (s2.Sel.Name == "Level" || s2.Sel.Name == "LevelQ") {
								if rid := rootIdent(s2.X); rid != nil && info.Uses[rid] == types.Object(outP) {
									if lid, ok := a2.Lhs[k].(*ast.Ident); ok && info.Defs[lid] != nil {
										outLevels[info.Defs[lid]] = true
									}
								}
							}
						}
					}
					return true
				})
				mentionsOutLevel := func(e ast.Node) bool {
					f := false
					ast.Inspect(e, func(y ast.Node) bool {
						if yid, ok := y.(*ast.Ident); ok && outLevels[info.Uses[yid]] {
							f = true
						}
						return !f
					})
					return f
				}
				working, applied := false, ""
				ast.Inspect(fd.Body, func(y ast.Node) bool {
					switch v := y.(type) {
					case *ast.CallExpr:
						if s, ok := unparen(v.Fun).(*ast.SelectorExpr); ok {
							if s.Sel.Name == "AtLevel" && len(v.Args) >= 1 && mentionsLv(v.Args[0]) {
								working = true
							}
							if s.Sel.Name == "Resize" && mentionsOut(s.X) && len(v.Args) == 2 && mentionsLv(v.Args[1]) {
								applied = "Resize at " + c.Rel(v.Pos())
							}
						}
						// the level handed to a ring-level operation (CopyLvl(level, …), ModDown…(level, …))
						if s, ok := unparen(v.Fun).(*ast.SelectorExpr); !ok || s.Sel.Name != "Resize" {
							for _, a := range v.Args {
								if aid, ok := unparen(a).(*ast.Ident); ok && info.Uses[aid] == lv {
									working = true
								}
							}
						}
						// handed on together with the level
						hasOut, hasLv := false, false
						for _, a := range v.Args {
							if rid := rootIdent(a); rid != nil && info.Uses[rid] == types.Object(outP) {
								// opOut, opOut[i], opOut.El(): the element as a whole, not one of its polynomials
								if t := info.TypeOf(a); t != nil && isMetaCarrier(t) && !strings.HasSuffix(t.String(), "ring.Poly") {
									hasOut = true
								}
							}
							if aid, ok := unparen(a).(*ast.Ident); ok && info.Uses[aid] == lv {
								hasLv = true
							}
						}
						if hasOut && hasLv && applied == "" {
							applied = "handed on with the level at " + c.Rel(v.Pos())
						}
					case *ast.BinaryExpr:
						switch v.Op {
						case token.EQL, token.NEQ, token.LSS, token.GTR, token.LEQ, token.GEQ:
							if mentionsOut(v) && (mentionsLv(v) || strings.Contains(exprString(v), exprString(as.Rhs[i]))) && strings.Contains(exprString(v), "Level") {
								applied = "compared at " + c.Rel(v.Pos())
							}
							if mentionsOutLevel(v) && mentionsLv(v) {
								applied = "compared (through a local holding opOut's level) at " + c.Rel(v.Pos())
							}
						}
					}
					return true
				})
				if !working {
					continue
				}
				n++
				key := fmt.Sprintf("OUTLEVEL1:%s#%s", fkey, id.Name)
				if applied != "" {
					out = append(out, withProps(okOb("OUTLEVEL1", key, c.Rel(as.Pos()), "the working level "+id.Name+" is applied to opOut: "+applied, true), propsForKey(fkey)...))
				} else {
					out = append(out, withProps(violOb("OUTLEVEL1", key, c.Rel(as.Pos()), fmt.Sprintf("%s computes at %s := %s and never brings opOut to that level (no Resize of opOut with it, no comparison of opOut's level with it): a receiver allocated at a higher level keeps its upper residues, unrelated to the result, under a level that declares them valid", fkey, id.Name, exprString(as.Rhs[i]))), propsForKey(fkey)...))
				}
			}
			return true
		})
	})
	c.Stats["outlevel1_defs"] = n
	return out
}

func init() {
	all := []string{"C20", "C04", "C05", "C06", "C11", "C12", "C13", "C18"}
	core.Register(&core.Rule{Name: "OUTLEVEL1", Wide: true, Props: all,
		Doc: "in an exported method with a parameter opOut, a working level defined as the Level()/LevelQ() of another parameter and used for AtLevel is also applied to opOut (Resize with it, a comparison of opOut's level with it, or opOut handed on together with it)",
		Run: func(c *core.Ctx) []ob {
			out := scanOutLevel1(c)
			for _, o := range control(c, "OUTLEVEL1", scanOutLevel1, "(fixEvaluator).ProductAtKeyLevel") {
				out = append(out, withProps(o, "C20"))
			}
			return out
		}})
}

// RESIZECOND — bringing a receiver to the working level is not made conditional on the receiver being too low.
//
// `ct.Resize(ct.Degree(), level)` became `if ct.Level() < pt.Level() { ct.Resize(ct.Degree(), level) }` ("skip when
// nothing to resize", comparison reversed): a receiver above the level of the plaintext is no longer cut, the operation
// writes the lower residues only and the upper ones keep whatever they held under a level that declares them valid.
//
// Rule: no `X.Resize(…)` stands under an if without else whose condition is `X.Level() < E` (or `E > X.Level()`): a
// Resize that depends on the level is wanted when the levels differ (`!=`), or at least when the receiver is above.
func scanResizeCond(c *core.Ctx) []ob {
	var out []ob
	n := 0
	c.FuncDecls(func(pk *packages.Package, file *ast.File, fd *ast.FuncDecl) {
		if fd.Body == nil || fileIsTestSupport(c.Program, fd.Pos()) || inExamples(pk) {
			return
		}
		fkey := core.FuncKey(pk, fd)
		levelOf := func(e ast.Expr) string {
			if call, ok := unparen(e).(*ast.CallExpr); ok && len(call.Args) == 0 {
				if s, ok := unparen(call.Fun).(*ast.SelectorExpr); ok && (s.Sel.Name == "Level" || s.Sel.Name == "LevelQ") {
					return exprString(s.X)
				}
			}
			return ""
		}
		ast.Inspect(fd.Body, func(x ast.Node) bool {
			is, ok := x.(*ast.IfStmt)
			if !ok {
				return true
			}
			// Resize calls directly under this if
			var resized []string
			var pos token.Pos
			for _, st := range is.Body.List {
				if es, ok := st.(*ast.ExprStmt); ok {
					if call, ok := es.X.(*ast.CallExpr); ok {
						if s, ok := unparen(call.Fun).(*ast.SelectorExpr); ok && s.Sel.Name == "Resize" {
							resized = append(resized, strings.TrimSuffix(exprString(s.X), ".El()"))
							pos = call.Pos()
						}
					}
				}
			}
			if len(resized) == 0 {
				return true
			}
			n++
			if is.Else != nil {
				return true
			}
			be, ok := unparen(is.Cond).(*ast.BinaryExpr)
			if !ok {
				return true
			}
			low := ""
			switch be.Op {
			case token.LSS, token.LEQ:
				low = levelOf(be.X)
			case token.GTR, token.GEQ:
				low = levelOf(be.Y)
			}
			if low == "" {
				return true
			}
			for _, r := range resized {
				if r == low {
					out = append(out, withProps(violOb("RESIZECOND", fmt.Sprintf("RESIZECOND:%s#%s", fkey, r), c.Rel(pos), fmt.Sprintf("%s resizes %s only when `%s`: an element above the working level is not cut, the operation then writes its lower residues only and the upper ones keep what they held under a level that declares them valid", fkey, r, exprString(is.Cond))), propsForKey(fkey)...))
				}
			}
			return true
		})
	})
	c.Stats["resizecond_sites"] = n
	out = append(out, okOb("RESIZECOND", "RESIZECOND:module", "", fmt.Sprintf("%d conditional Resize calls examined, none is conditional on the element being below a level", n), true))
	return out
}

func init() {
	all := []string{"C03", "C04", "C05", "C06", "C09", "C11", "C12", "C16", "C20"}
	core.Register(&core.Rule{Name: "RESIZECOND", Wide: true, Props: all,
		Doc: "no Resize of an element stands under an if without else whose condition is that the element's level is below another level: the element above the working level must be cut as well",
		Run: func(c *core.Ctx) []ob {
			out := scanResizeCond(c)
			for i := range out {
				if out[i].Key == "RESIZECOND:module" {
					out[i] = withProps(out[i], all...)
				}
			}
			for _, o := range control(c, "RESIZECOND", scanResizeCond, "lvfixture.raiseOnly") {
				out = append(out, withProps(o, "C03", "C09"))
			}
			return out
		}})
}

// ROWOP — an operation whose key list needs the row swap is implemented by the scheme that has rows.
//
// A BGV/BFV plaintext is a 2 x N/2 matrix; the generic rlwe operations only know column rotations. When the scheme's
// `Parameters.GaloisElementsFor<Op>` adds `GaloisElementForRowRotation()` to the generic list, the scheme says that
// <Op> needs the row swap for some arguments — so its Evaluator must implement <Op> itself: inherited from
// rlwe.Evaluator the operation never uses the key it advertises, and is wrong for those arguments (bgv `Replicate`
// replicated twice in the first row and left the second one empty).
func scanRowOp(c *core.Ctx) []ob {
	var out []ob
	n := 0
	for _, pk := range c.Pkgs {
		rel := core.ShortPkg(pk.PkgPath)
		if !(c.IsFixture || strings.HasPrefix(rel, "schemes/")) {
			continue
		}
		info := pk.TypesInfo
		// own methods of the Evaluator of the package
		own := map[string]bool{}
		hasEval := false
		for _, f := range pk.Syntax {
			for _, d := range f.Decls {
				if fd, ok := d.(*ast.FuncDecl); ok && fd.Recv != nil && core.RecvTypeName(fd) == "Evaluator" {
					own[fd.Name.Name] = true
					hasEval = true
				}
			}
		}
		if !hasEval {
			continue
		}
		for _, f := range pk.Syntax {
			if fileIsTestSupport(c.Program, f.Pos()) {
				continue
			}
			for _, d := range f.Decls {
				fd, ok := d.(*ast.FuncDecl)
				if !ok || fd.Body == nil || fd.Recv == nil || !strings.HasPrefix(fd.Name.Name, "GaloisElementsFor") {
					continue
				}
				op := strings.TrimPrefix(fd.Name.Name, "GaloisElementsFor")
				needsRow := false
				ast.Inspect(fd.Body, func(x ast.Node) bool {
					if call, ok := x.(*ast.CallExpr); ok && calleeName(info, call) == "GaloisElementForRowRotation" {
						needsRow = true
					}
					return !needsRow
				})
				if !needsRow || op == "" {
					continue
				}
				n++
				fkey := core.FuncKey(pk, fd)
				key := "ROWOP:" + fkey
				if own[op] {
					out = append(out, withProps(okOb("ROWOP", key, c.Rel(fd.Pos()), "the Evaluator of the package implements "+op+" itself", true), "C11", "C05"))
				} else {
					out = append(out, withProps(violOb("ROWOP", key, c.Rel(fd.Pos()), fmt.Sprintf("%s adds the row-swap element to the key list of %s, but the Evaluator of %s has no %s of its own: the operation inherited from the generic evaluator only rotates columns, never uses that key and is wrong for the arguments that need it", fkey, op, rel, op)), "C11", "C05"))
				}
			}
		}
	}
	c.Stats["rowop_lists"] = n
	return out
}

func init() {
	core.Register(&core.Rule{Name: "ROWOP", Props: []string{"C11", "C05"},
		Doc: "when a scheme's Parameters.GaloisElementsFor<Op> adds GaloisElementForRowRotation() to the generic list, the scheme's Evaluator declares <Op> itself (the generic operation never uses the row swap)",
		Run: func(c *core.Ctx) []ob {
			out := scanRowOp(c)
			if !c.IsFixture {
				for _, o := range core.Floor("ROWOP", nil, "key lists with the row swap", c.Stats["rowop_lists"], 2) {
					out = append(out, withProps(o, "C11"))
				}
			}
			return out
		}})
}

// PEEKSIZE — a Peek never asks for more than the reader holds.
//
// `Peek(n)` of a bufio.Reader fails with ErrBufferFull when n exceeds the size of its buffer, whatever the stream
// contains: a decoder that peeks a length taken from the data (`r.Peek(size)` for a length-prefixed JSON block) or the
// length of the destination (`r.Peek(len(c))`) works with the in-memory buffer and with short objects, and refuses
// valid streams as soon as the object is longer than the reader's buffer.
//
// Rule: the argument of every Peek on a buffer.Reader / bufio.Reader is a constant, or a variable that the function
// bounds by the Size() (or Buffered()) of that reader (one of its definitions is such a call).
func scanPeekSize(c *core.Ctx) []ob {
	var out []ob
	n := 0
	c.FuncDecls(func(pk *packages.Package, file *ast.File, fd *ast.FuncDecl) {
		if fd.Body == nil || fileIsTestSupport(c.Program, fd.Pos()) || inExamples(pk) {
			return
		}
		info := pk.TypesInfo
		fkey := core.FuncKey(pk, fd)
		ast.Inspect(fd.Body, func(x ast.Node) bool {
			call, ok := x.(*ast.CallExpr)
			if !ok || len(call.Args) != 1 {
				return true
			}
			sel, ok := unparen(call.Fun).(*ast.SelectorExpr)
			if !ok || sel.Sel.Name != "Peek" {
				return true
			}
			if t := info.TypeOf(sel.X); t == nil || !(isReaderType(t) || isNamedType(deref(t), "bufio", "Reader")) {
				return true
			}
			n++
			arg := unparen(call.Args[0])
			if tv, ok := info.Types[arg]; ok && tv.Value != nil {
				return true
			}
			bounded := false
			if id, ok := arg.(*ast.Ident); ok {
				o := info.Uses[id]
				ast.Inspect(fd.Body, func(y ast.Node) bool {
					as, ok := y.(*ast.AssignStmt)
					if !ok || len(as.Lhs) != len(as.Rhs) {
						return true
					}
					for i, l := range as.Lhs {
						lid, ok := l.(*ast.Ident)
						if !ok {
							continue
						}
						lo := info.Defs[lid]
						if lo == nil {
							lo = info.Uses[lid]
						}
						if lo != o {
							continue
						}
						ast.Inspect(as.Rhs[i], func(z ast.Node) bool {
							if c2, ok := z.(*ast.CallExpr); ok {
								if s2, ok := unparen(c2.Fun).(*ast.SelectorExpr); ok && (s2.Sel.Name == "Size" || s2.Sel.Name == "Buffered") && exprString(s2.X) == exprString(sel.X) {
									bounded = true
								}
							}
							return !bounded
						})
					}
					return true
				})
			}
			if bounded {
				return true
			}
			out = append(out, withProps(violOb("PEEKSIZE", fmt.Sprintf("PEEKSIZE:%s#%s", fkey, exprString(call)), c.Rel(call.Pos()), fmt.Sprintf("%s peeks %s bytes, a length that is neither a constant nor bounded by the size of the reader: a bufio.Reader whose buffer is smaller fails with ErrBufferFull on a valid stream", fkey, exprString(arg))), "C08"))
			return true
		})
	})
	c.Stats["peeksize_calls"] = n
	out = append(out, withProps(okOb("PEEKSIZE", "PEEKSIZE:module", "", fmt.Sprintf("%d Peek calls examined", n), true), "C08"))
	return out
}

func init() {
	core.Register(&core.Rule{Name: "PEEKSIZE", Props: []string{"C08"},
		Doc: "the argument of every Peek on a buffer.Reader/bufio.Reader is a constant or a variable bounded by the Size()/Buffered() of that reader",
		Run: func(c *core.Ctx) []ob {
			out := scanPeekSize(c)
			if !c.IsFixture {
				out = append(out, core.Floor("PEEKSIZE", []string{"C08"}, "Peek calls", c.Stats["peeksize_calls"], 9)...)
				out = append(out, control(c, "PEEKSIZE", scanPeekSize, "lvfixture.readBlock")...)
			}
			return out
		}})
}
