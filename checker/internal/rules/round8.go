package rules

import (
	"fmt"
	"go/ast"
	"go/token"
	"go/types"
	"sort"
	"strings"

	"golang.org/x/tools/go/packages"

	"lvcheck/internal/core"
)

// GUARDIDX — a presence test is made on the elements the guarded block uses.
//
// `if cts[j] != nil || cts[j+1] != nil { Merge(cts[j], cts[j+t], …); cts[j+t] = nil }`: the partner of j in the tree is
// j+t, the guard looks at j+1. With a sparse index set the pair (nil, non-nil) at distance t is skipped and a
// ciphertext is dropped from the result without any error.
//
// Rule: for every if-condition that compares elements of one container with nil (`B[e] != nil`, `B[e] == nil`), let T
// be the index expressions tested and U the index expressions with which the guarded block (and the else arm)
// addresses B. If some tested index is never used and some used index is never tested, the test and the use disagree.
func scanGuardIdx(c *core.Ctx) []ob {
	var out []ob
	n := 0
	c.FuncDecls(func(pk *packages.Package, file *ast.File, fd *ast.FuncDecl) {
		if fd.Body == nil || fileIsTestSupport(c.Program, fd.Pos()) || inExamples(pk) {
			return
		}
		info := pk.TypesInfo
		fkey := core.FuncKey(pk, fd)
		ast.Inspect(fd.Body, func(x ast.Node) bool {
			is, ok := x.(*ast.IfStmt)
			if !ok {
				return true
			}
			// tested elements, per container
			tested := map[string]map[string]bool{}
			ast.Inspect(is.Cond, func(y ast.Node) bool {
				be, ok := y.(*ast.BinaryExpr)
				if !ok || (be.Op != token.NEQ && be.Op != token.EQL) {
					return true
				}
				var el ast.Expr
				if isNilIdent(be.Y) {
					el = be.X
				} else if isNilIdent(be.X) {
					el = be.Y
				}
				ix, ok := unparen(el).(*ast.IndexExpr)
				if el == nil || !ok {
					return true
				}
				if _, isMap := info.TypeOf(ix.X).Underlying().(*types.Map); isMap {
					return true // a key looked up is not a position
				}
				b := exprString(ix.X)
				if tested[b] == nil {
					tested[b] = map[string]bool{}
				}
				tested[b][exprString(ix.Index)] = true
				return true
			})
			for _, b := range sortedKeys(tested) {
				T := tested[b]
				n++
				used := map[string]bool{}
				var firstUse token.Pos
				scan := func(nd ast.Node) {
					if nd == nil {
						return
					}
					ast.Inspect(nd, func(y ast.Node) bool {
						if ix, ok := y.(*ast.IndexExpr); ok && exprString(ix.X) == b {
							k := exprString(ix.Index)
							if !used[k] && !T[k] && firstUse == token.NoPos {
								firstUse = ix.Pos()
							}
							used[k] = true
						}
						return true
					})
				}
				scan(is.Body)
				if is.Else != nil {
					scan(is.Else)
				}
				var unusedT, untestedU []string
				for k := range T {
					if !used[k] {
						unusedT = append(unusedT, k)
					}
				}
				for k := range used {
					if !T[k] {
						untestedU = append(untestedU, k)
					}
				}
				sort.Strings(unusedT)
				sort.Strings(untestedU)
				key := fmt.Sprintf("GUARDIDX:%s#%s[%s]", fkey, b, strings.Join(sortedKeys(T), ","))
				if len(unusedT) > 0 && len(untestedU) > 0 {
					out = append(out, withProps(violOb("GUARDIDX", key, c.Rel(is.Pos()), fmt.Sprintf("%s: the condition at %s tests %s[%s] for nil but the guarded block never uses it and addresses %s[%s] instead (%s): the presence test and the use disagree, so an element present only at the index that is used is skipped", fkey, c.Rel(is.Pos()), b, strings.Join(unusedT, "], "+b+"["), b, strings.Join(untestedU, "], "+b+"["), c.Rel(firstUse))), propsForKey(fkey)...))
				}
			}
			return true
		})
	})
	c.Stats["guardidx_tests"] = n
	out = append(out, okOb("GUARDIDX", "GUARDIDX:module", "", fmt.Sprintf("%d presence tests on container elements examined", n), true))
	return out
}

func init() {
	core.Register(&core.Rule{Name: "GUARDIDX", Wide: true, Props: []string{"C04", "C11", "C12"},
		Doc: "an if-condition that tests elements of a container for nil tests the elements its block uses: no tested index that is never used together with a used index that is never tested",
		Run: func(c *core.Ctx) []ob {
			out := scanGuardIdx(c)
			for i := range out {
				if out[i].Key == "GUARDIDX:module" {
					out[i] = withProps(out[i], "C04", "C11", "C12")
				}
			}
			for _, o := range core.Floor("GUARDIDX", nil, "presence tests on container elements", c.Stats["guardidx_tests"], 20) {
				out = append(out, withProps(o, "C04"))
			}
			for _, o := range control(c, "GUARDIDX", scanGuardIdx, "lvfixture.mergeTree") {
				out = append(out, withProps(o, "C04"))
			}
			return out
		}})
}
