package rules

import (
	"fmt"
	"go/ast"
	"go/types"
	"strings"

	"golang.org/x/tools/go/packages"

	"lvcheck/internal/core"
)

// CLONE — near-identical sibling code differs by a consistent renaming.
//
// Two kinds of sibling pairs are compared leaf by leaf (identifiers, literals, operators; same tree shape):
//   - consecutive statements of one block that are not part of a LANE group (2..5 in a row), e.g. the [0]/[1]
//     components of a ciphertext or the Q/P halves of a polynomial;
//   - the then/else arms of an `if` (e.g. the vector and single-polynomial branches of an evaluator).
// When at least 60% of the leaves are equal, the differing leaves must form a one-to-one renaming: a name on one
// side always corresponds to the same name on the other side and no two names are merged. A site where one
// occurrence was edited and its siblings were not (an operand taken from the output instead of the input in one
// component only, one call left on the scalar accessor inside the vector branch) breaks the renaming.
// Integer literals may follow any consistent renaming as well (0 -> 1).

// cloneExempt: function -> inconsistency text accepted, with the reason.
var cloneExempt = map[string]string{
	// the secret is extended from Q to Q (more levels) and from Q to P: the source ring is ringQ in both statements
	"circuits/ckks/bootstrapping.(Parameters).GenEvaluationKeys": "ringQ corresponds to both ringP and ringQ",
}

type cloneCmp struct {
	total, same int
	l2r, r2l    map[string]map[string]bool
}

// renamable reports whether the leaf takes part in the renaming relation: variables and function/method names do,
// struct fields, composite-literal keys, literals and operators do not (Q/P halves, [0]/[1] components and
// +/- legitimately vary position by position).
func renamable(info *types.Info, l leaf) bool {
	if l.kind != "id" || l.id == nil {
		return false
	}
	o := info.Uses[l.id]
	if o == nil {
		o = info.Defs[l.id]
	}
	switch v := o.(type) {
	case *types.Var:
		return !v.IsField()
	case *types.Func:
		return true
	}
	return false
}

func compareLeaves(info *types.Info, a, b []leaf) cloneCmp {
	cc := cloneCmp{l2r: map[string]map[string]bool{}, r2l: map[string]map[string]bool{}}
	for i := range a {
		cc.total++
		ka, kb := a[i].kind+":"+a[i].val, b[i].kind+":"+b[i].val
		if ka == kb {
			cc.same++
		}
		if !renamable(info, a[i]) || !renamable(info, b[i]) {
			continue
		}
		if cc.l2r[ka] == nil {
			cc.l2r[ka] = map[string]bool{}
		}
		cc.l2r[ka][kb] = true
		if cc.r2l[kb] == nil {
			cc.r2l[kb] = map[string]bool{}
		}
		cc.r2l[kb][ka] = true
	}
	return cc
}

func (cc cloneCmp) inconsistency() string {
	for k, m := range cc.l2r {
		if len(m) > 1 {
			return fmt.Sprintf("%s corresponds to %s", strings.SplitN(k, ":", 2)[1], joinKeys(m))
		}
	}
	for k, m := range cc.r2l {
		if len(m) > 1 {
			return fmt.Sprintf("%s stands for %s", strings.SplitN(k, ":", 2)[1], joinKeys(m))
		}
	}
	return ""
}

func joinKeys(m map[string]bool) string {
	var ks []string
	for k := range m {
		ks = append(ks, strings.SplitN(k, ":", 2)[1])
	}
	sortStrings(ks)
	return "both " + strings.Join(ks, " and ")
}

func scanClone(c *core.Ctx) []ob {
	var out []ob
	nPairs := 0
	c.FuncDecls(func(pk *packages.Package, file *ast.File, fd *ast.FuncDecl) {
		rel := core.ShortPkg(pk.PkgPath)
		if fileIsTestSupport(c.Program, fd.Pos()) || strings.HasPrefix(rel, "examples") || strings.HasPrefix(rel, "utils/factorization") || strings.HasPrefix(rel, "utils/bignum") || strings.HasPrefix(rel, "utils/cosine") {
			return
		}
		fkey := core.FuncKey(pk, fd)
		ord := 0
		report := func(kind string, pos, pos2 ast.Node, cc cloneCmp) {
			ord++
			nPairs++
			key := fmt.Sprintf("CLONE:%s#%s%d", fkey, kind, ord)
			bad := cc.inconsistency()
			if ex, ok := cloneExempt[fkey]; ok && strings.Contains(bad, ex) {
				bad = ""
			}
			if bad != "" {
				out = append(out, withProps(violOb("CLONE", key, c.Rel(pos2.Pos()), fmt.Sprintf("%s: the sibling %s at %s and %s are identical in %d of %d leaves but do not differ by a consistent renaming: %s — one occurrence was changed and its siblings were not", fkey, kind, c.Rel(pos.Pos()), c.Rel(pos2.Pos()), cc.same, cc.total, bad)), cloneProps(fkey)...))
			} else {
				out = append(out, withProps(okOb("CLONE", key, c.Rel(pos.Pos()), fmt.Sprintf("%d/%d leaves equal, the rest a one-to-one renaming", cc.same, cc.total), true), cloneProps(fkey)...))
			}
		}
		ast.Inspect(fd.Body, func(n ast.Node) bool {
			switch x := n.(type) {
			case *ast.IfStmt:
				eb, ok := x.Else.(*ast.BlockStmt)
				if !ok {
					return true
				}
				sa, la := shapeAndLeaves(x.Body)
				sb, lb := shapeAndLeaves(eb)
				_ = sa
				_ = sb
				// arms are blocks: compare statement lists
				if len(x.Body.List) != len(eb.List) || len(x.Body.List) == 0 {
					return true
				}
				la, lb = nil, nil
				same := true
				for i := range x.Body.List {
					s1, l1 := shapeAndLeaves(x.Body.List[i])
					s2, l2 := shapeAndLeaves(eb.List[i])
					if stripPos(s1) != stripPos(s2) {
						same = false
						break
					}
					la = append(la, l1...)
					lb = append(lb, l2...)
				}
				if !same || len(la) < 12 {
					return true
				}
				cc := compareLeaves(pk.TypesInfo, la, lb)
				if cc.same*10 >= cc.total*6 && cc.same < cc.total {
					report("arms", x.Body, eb, cc)
				}
			case *ast.BlockStmt:
				list := x.List
				shapes := make([]string, len(list))
				lvs := make([][]leaf, len(list))
				for i, s := range list {
					shapes[i], lvs[i] = shapeAndLeaves(s)
				}
				for i := 0; i+1 < len(list); i++ {
					if strings.Contains(shapes[i], "?") || shapes[i] != shapes[i+1] || len(lvs[i]) < 6 {
						continue
					}
					// skip long runs: they are LANE groups
					run := 1
					for j := i + 1; j < len(list) && shapes[j] == shapes[i]; j++ {
						run++
					}
					back := 0
					for j := i - 1; j >= 0 && shapes[j] == shapes[i]; j-- {
						back++
					}
					if run+back >= 6 {
						continue
					}
					cc := compareLeaves(pk.TypesInfo, lvs[i], lvs[i+1])
					if cc.inconsistency() != "" && inPlaceVariant(pk.TypesInfo, list[i], list[i+1], lvs[i], lvs[i+1]) {
						continue
					}
					if cc.same*10 >= cc.total*6 && cc.same < cc.total {
						report("statements", list[i], list[i+1], cc)
					}
				}
			}
			return true
		})
	})
	c.Stats["clone_pairs"] = nPairs
	return out
}

// inPlaceVariant: two call statements that apply different operations (a different function leaf) and whose only
// broken correspondence is the destination, the last operand — `op1(a, b, tmp)` next to `op2(a, b, a)` — are the
// out-of-place and the in-place use of one operand pair, not two lanes of one operation.
func inPlaceVariant(info *types.Info, s1, s2 ast.Stmt, a, b []leaf) bool {
	e1, ok1 := s1.(*ast.ExprStmt)
	e2, ok2 := s2.(*ast.ExprStmt)
	if !ok1 || !ok2 {
		return false
	}
	if _, ok := e1.X.(*ast.CallExpr); !ok {
		return false
	}
	if _, ok := e2.X.(*ast.CallExpr); !ok {
		return false
	}
	last := -1
	otherOp := false
	for i := range a {
		if !renamable(info, a[i]) || !renamable(info, b[i]) {
			continue
		}
		last = i
		oa, ob := info.Uses[a[i].id], info.Uses[b[i].id]
		if _, isF := oa.(*types.Func); isF && oa != ob {
			otherOp = true
		}
	}
	if last < 0 || !otherOp {
		return false
	}
	a2 := append(append([]leaf{}, a[:last]...), a[last+1:]...)
	b2 := append(append([]leaf{}, b[:last]...), b[last+1:]...)
	return compareLeaves(info, a2, b2).inconsistency() == ""
}

// stripPos removes the position-dependent part of opaque shape tokens so that control statements of the same kind compare equal.
func stripPos(s string) string {
	var sb strings.Builder
	skip := false
	for _, r := range s {
		if r == '@' {
			skip = true
			continue
		}
		if skip {
			if r >= '0' && r <= '9' {
				continue
			}
			skip = false
		}
		sb.WriteRune(r)
	}
	return sb.String()
}

func cloneProps(fkey string) []string {
	switch {
	case strings.HasPrefix(fkey, "ring.") && strings.Contains(fkey, "Sampler") || strings.HasPrefix(fkey, "utils/sampling"):
		return []string{"C17", "C03"}
	case strings.HasPrefix(fkey, "ring/ringqp") || strings.HasPrefix(fkey, "ring."):
		return []string{"C01", "C02"}
	case strings.HasPrefix(fkey, "utils/buffer") || strings.HasPrefix(fkey, "utils/structs"):
		return []string{"C08"}
	case strings.HasPrefix(fkey, "schemes/bgv"):
		return []string{"C05", "C07"}
	case strings.HasPrefix(fkey, "schemes/ckks"):
		return []string{"C06", "C07"}
	case strings.Contains(fkey, "lintrans"):
		return []string{"C12"}
	case strings.Contains(fkey, "polynomial") || strings.Contains(fkey, "minimax") || strings.Contains(fkey, "mod1") || strings.Contains(fkey, "inverse") || strings.Contains(fkey, "comparison"):
		return []string{"C13"}
	case strings.Contains(fkey, "bootstrapping") || strings.Contains(fkey, "dft"):
		return []string{"C18"}
	case strings.HasPrefix(fkey, "core/rgsw"):
		return []string{"C20"}
	case strings.HasPrefix(fkey, "multiparty/mp") || strings.Contains(fkey, "KeySwitch") || strings.Contains(fkey, "Refresh"):
		return []string{"C16"}
	case strings.HasPrefix(fkey, "multiparty.(Thresholdizer)") || strings.HasPrefix(fkey, "multiparty.(Combiner)"):
		return []string{"C15"}
	case strings.HasPrefix(fkey, "multiparty"):
		return []string{"C14"}
	case strings.Contains(fkey, "Encryptor") || strings.Contains(fkey, "Decryptor"):
		return []string{"C03"}
	case strings.Contains(fkey, "inner_sum") || strings.Contains(fkey, "Trace") || strings.Contains(fkey, "InnerSum") || strings.Contains(fkey, "PartialTraces") || strings.Contains(fkey, "InnerFunction"):
		return []string{"C11"}
	}
	return []string{"C04"}
}

func init() {
	all := []string{"C01", "C02", "C03", "C04", "C05", "C06", "C07", "C08", "C11", "C12", "C13", "C14", "C15", "C16", "C17", "C18", "C20"}
	core.Register(&core.Rule{Name: "CLONE", Props: all,
		Doc: "consecutive sibling statements (outside LANE groups) and then/else arms that have the same tree shape and agree on at least 60% of their leaves differ by a one-to-one renaming of identifiers and literals; no two names of a block are defined as the very same slice or element of a buffer",
		Run: func(c *core.Ctx) []ob {
			out := scanClone(c)
			out = append(out, scanCloneExt(c)...)
			out = append(out, control(c, "CLONE", scanClone, "(fixEvaluator).Twice")...)
			out = append(out, control(c, "CLONE", scanCloneExt, "dupview(lo,hi)")...)
			out = append(out, core.Floor("CLONE", nil, "definitions of slice/element views", c.Stats["clone_viewdefs"], 40)...)
			for _, o := range core.Floor("CLONE", nil, "sibling pairs", c.Stats["clone_pairs"], 150) {
				out = append(out, withProps(o, all...))
			}
			return out
		}})
}
