package rules

import (
	"fmt"
	"go/ast"
	"go/token"
	"go/types"
	"regexp"
	"sort"
	"strings"

	"golang.org/x/tools/go/packages"

	"lvcheck/internal/core"
)

// REDARG — scalars are fully reduced before they are negated or conditionally reduced modulo a given prime.
//
// In the ring-level (non-kernel) functions of package ring, inside a loop over the sub-rings `s`:
//   - in `s.Modulus - E`, E must not be an unreduced scalar: a raw uint64 parameter of the function, or a value
//     derived from the modulus of *another* sub-ring (e.g. pHalf = (q_level-1)/2). Such a value can exceed
//     s.Modulus, and the subtraction then wraps around 2^64 — for that modulus only, so the RNS components of
//     one polynomial disagree. A full reduction (BRedAdd, BRed, %, big.Int.Mod) makes it safe.
//   - CRed(E, s.Modulus) only subtracts the modulus once: E must not be such an unreduced scalar either.

var fullReducers = map[string]bool{"BRedAdd": true, "BRed": true, "MRed": true, "ModExp": true, "ModexpMontgomery": true, "MForm": true, "IMForm": true, "Mod": true}

type redCtx struct {
	info   *types.Info
	fd     *ast.FuncDecl
	params map[types.Object]bool
	defs   map[types.Object][]ast.Expr
}

// unreducedSource reports why e may exceed the modulus `mod` (textual form of the sub-ring modulus expression), or "".
func (rc *redCtx) unreducedSource(e ast.Expr, mod string, depth int) string {
	if depth > 6 || e == nil {
		return ""
	}
	e = unparen(e)
	switch x := e.(type) {
	case *ast.BasicLit:
		return ""
	case *ast.Ident:
		o := rc.info.Uses[x]
		if o == nil {
			return ""
		}
		if rc.params[o] {
			if b, ok := o.Type().Underlying().(*types.Basic); ok && b.Kind() == types.Uint64 {
				return fmt.Sprintf("the raw uint64 parameter %s", x.Name)
			}
			return ""
		}
		if ds := rc.defs[o]; len(ds) == 1 && ds[0] != nil {
			return rc.unreducedSource(ds[0], mod, depth+1)
		}
		return ""
	case *ast.CallExpr:
		name := ""
		switch f := unparen(x.Fun).(type) {
		case *ast.Ident:
			name = f.Name
		case *ast.SelectorExpr:
			name = f.Sel.Name
		}
		if fullReducers[name] {
			return "" // fully reduced whatever its input
		}
		if name == "CRed" && len(x.Args) == 2 {
			if why := rc.unreducedSource(x.Args[0], mod, depth+1); why != "" {
				return "CRed (a single conditional subtraction) of " + why
			}
			return ""
		}
		if tv, ok := rc.info.Types[x.Fun]; ok && tv.IsType() && len(x.Args) == 1 {
			return rc.unreducedSource(x.Args[0], mod, depth+1)
		}
		if name == "Uint64" {
			return ""
		}
		return ""
	case *ast.BinaryExpr:
		if x.Op == token.REM {
			return ""
		}
		if a := rc.unreducedSource(x.X, mod, depth+1); a != "" {
			return a
		}
		return rc.unreducedSource(x.Y, mod, depth+1)
	case *ast.SelectorExpr:
		// the modulus of another sub-ring
		if x.Sel.Name == "Modulus" {
			s := exprString(x)
			if s != mod {
				return fmt.Sprintf("%s, the modulus of another sub-ring", s)
			}
		}
		return ""
	case *ast.IndexExpr:
		return "" // table / RNS scalar / coefficient entries are stored reduced
	}
	return ""
}

func scanRedArg(c *core.Ctx) []ob {
	var out []ob
	pk := c.Pkg("ring")
	if pk == nil || c.IsFixture {
		return nil
	}
	info := pk.TypesInfo
	n := 0
	for _, f := range pk.Syntax {
		fn := c.RelFile(f.Pos())
		if strings.HasSuffix(fn, "vec_ops.go") || strings.HasSuffix(fn, "ntt.go") || strings.HasSuffix(fn, "modular_reduction.go") || strings.HasSuffix(fn, "primes.go") || core.IsTestSupportFile(fn) {
			continue
		}
		for _, d := range f.Decls {
			fd, ok := d.(*ast.FuncDecl)
			if !ok || fd.Body == nil {
				continue
			}
			rc := &redCtx{info: info, fd: fd, params: map[types.Object]bool{}, defs: map[types.Object][]ast.Expr{}}
			// an unexported element-wise combiner (`func addSample(a, b, c uint64) uint64`, the named form of the literals
			// handed to the samplers' read loops) receives coefficients and samples, not user scalars
			combiner := !fd.Name.IsExported() && fd.Recv == nil && fd.Type.Results != nil && len(fd.Type.Results.List) == 1
			for _, fl := range fd.Type.Params.List {
				if !isUint64(info.TypeOf(fl.Type)) {
					combiner = false
				}
			}
			if combiner && fd.Type.Params.NumFields() >= 2 {
				continue
			}
			for _, fl := range fd.Type.Params.List {
				for _, nm := range fl.Names {
					rc.params[info.Defs[nm]] = true
				}
			}
			ast.Inspect(fd.Body, func(nd ast.Node) bool {
				if as, ok := nd.(*ast.AssignStmt); ok && len(as.Lhs) == len(as.Rhs) {
					for i, l := range as.Lhs {
						if id, ok := unparen(l).(*ast.Ident); ok {
							o := info.Defs[id]
							if o == nil {
								o = info.Uses[id]
							}
							if o != nil {
								rc.defs[o] = append(rc.defs[o], as.Rhs[i])
							}
						}
					}
				}
				return true
			})
			fkey := core.FuncKey(pk, fd)
			ord := 0
			ast.Inspect(fd.Body, func(nd ast.Node) bool {
				switch x := nd.(type) {
				case *ast.BinaryExpr:
					if x.Op != token.SUB {
						return true
					}
					ms, ok := unparen(x.X).(*ast.SelectorExpr)
					if !ok || ms.Sel.Name != "Modulus" {
						return true
					}
					mod := exprString(ms)
					ord++
					n++
					key := fmt.Sprintf("REDARG:%s#sub%d(%s - %s)", fkey, ord, mod, exprString(x.Y))
					if why := rc.unreducedSource(x.Y, mod, 0); why != "" {
						out = append(out, violOb("REDARG", key, c.Rel(x.Pos()), fmt.Sprintf("%s computes %s - %s where the subtrahend is %s: it can exceed %s, the subtraction then wraps around 2^64 for that modulus only and the RNS components of the result disagree", fkey, mod, exprString(x.Y), why, mod)))
					} else {
						out = append(out, okOb("REDARG", key, c.Rel(x.Pos()), "subtrahend is fully reduced, a table/RNS entry or a constant", true))
					}
				case *ast.CallExpr:
					// s.AddScalar / s.SubScalar (and their lazy variants): the sub-ring kernels add the scalar and
					// subtract the modulus at most once, so the scalar handed to them must already be a residue
					if sel, ok := unparen(x.Fun).(*ast.SelectorExpr); ok && (strings.HasPrefix(sel.Sel.Name, "AddScalar") || strings.HasPrefix(sel.Sel.Name, "SubScalar")) && len(x.Args) == 3 {
						if nn := namedOf(info.TypeOf(sel.X)); nn != nil && nn.Obj().Name() == "SubRing" {
							mod := exprString(sel.X) + ".Modulus"
							ord++
							n++
							key := fmt.Sprintf("REDARG:%s#scalar%d(%s.%s(%s))", fkey, ord, exprString(sel.X), sel.Sel.Name, exprString(x.Args[1]))
							if why := rc.unreducedSource(x.Args[1], mod, 0); why != "" {
								out = append(out, violOb("REDARG", key, c.Rel(x.Pos()), fmt.Sprintf("%s hands %s to %s.%s, whose kernel adds the scalar and subtracts the modulus at most once: the scalar is %s and can exceed that modulus, so the result is not reduced (and x + q - scalar wraps around 2^64 in the subtraction)", fkey, exprString(x.Args[1]), exprString(sel.X), sel.Sel.Name, why)))
							} else {
								out = append(out, okOb("REDARG", key, c.Rel(x.Pos()), "the scalar is a residue of that sub-ring's modulus", true))
							}
						}
						return true
					}
					id, ok := unparen(x.Fun).(*ast.Ident)
					if !ok || id.Name != "CRed" || len(x.Args) != 2 {
						return true
					}
					mod := exprString(x.Args[1])
					ord++
					n++
					key := fmt.Sprintf("REDARG:%s#cred%d(%s)", fkey, ord, exprString(x.Args[0]))
					if why := rc.unreducedSource(x.Args[0], mod, 0); why != "" {
						out = append(out, violOb("REDARG", key, c.Rel(x.Pos()), fmt.Sprintf("%s applies CRed (one conditional subtraction of %s) to %s: the value can be several multiples of the modulus above it and stays unreduced", fkey, mod, why)))
					} else {
						out = append(out, okOb("REDARG", key, c.Rel(x.Pos()), "argument of CRed is not an unreduced scalar", true))
					}
				}
				return true
			})
		}
	}
	c.Stats["redarg_sites"] = n
	return out
}

func init() {
	core.Register(&core.Rule{Name: "REDARG", Props: []string{"C01", "C02", "C15"},
		Doc: "in the ring-level functions of package ring, the subtrahend of `s.Modulus - E` and the argument of CRed(E, s.Modulus) is never a raw uint64 parameter or a value derived from another sub-ring's modulus (it must have gone through a full reduction)",
		Run: func(c *core.Ctx) []ob {
			out := scanRedArg(c)
			out = append(out, core.Floor("REDARG", nil, "modulus-subtraction / CRed sites", c.Stats["redarg_sites"], 10)...)
			return out
		}})
}

// MODSUB — in `M[i] - E`, with M a chain of moduli, E is a residue modulo that same M[i].
//
// The sign-folding idiom `tmp*pos + (P[i]-tmp)*neg` of the decomposition and bootstrapping code is only right when tmp
// has been reduced modulo P[i]: a digit of a prime of Q copied as it is wraps around 2^64 for every P[i] smaller than
// it. Rule: for every subtraction whose left operand is an element `M[I]` of a []uint64 obtained from
// `ModuliChain()` (or a parameter/local named Q, P, moduli), every definition of the right operand that reaches the
// subtraction (reaching definitions over go/cfg) is a full reduction with modulus argument `M[I]` (BRedAdd, BRed, MRed,
// ...), a coefficient `X.Coeffs[I][..]` of the same index, `M[I] - …` itself, or `big.Int.Uint64()` of a value reduced
// by big.Int.Mod. Functions named …SmallNorm… (inputs in {-1,0,1} by contract) are out of scope.
func scanModSub(c *core.Ctx) []ob {
	var out []ob
	n := 0
	c.FuncDecls(func(pk *packages.Package, file *ast.File, fd *ast.FuncDecl) {
		if fd.Body == nil || fileIsTestSupport(c.Program, fd.Pos()) || inExamples(pk) || strings.Contains(fd.Name.Name, "SmallNorm") {
			return
		}
		info := pk.TypesInfo
		fkey := core.FuncKey(pk, fd)
		isChain := func(e ast.Expr) bool {
			id, ok := unparen(e).(*ast.Ident)
			if !ok {
				return false
			}
			o := info.Uses[id]
			if o == nil {
				return false
			}
			sl, ok := o.Type().Underlying().(*types.Slice)
			if !ok {
				return false
			}
			if b, ok := sl.Elem().Underlying().(*types.Basic); !ok || b.Kind() != types.Uint64 {
				return false
			}
			switch id.Name {
			case "Q", "P", "moduli", "Moduli", "qi", "pi":
				return true
			}
			return false
		}
		var rd *reachInfo
		var okDef func(e ast.Expr, chain, idx string, at ast.Node, depth int) bool
		okDef = func(e ast.Expr, chain, idx string, at ast.Node, depth int) bool {
			if e == nil || depth > 4 {
				return false
			}
			e = unparen(e)
			switch x := e.(type) {
			case *ast.CallExpr:
				name := ""
				switch f := unparen(x.Fun).(type) {
				case *ast.Ident:
					name = f.Name
				case *ast.SelectorExpr:
					name = f.Sel.Name
				}
				if name == "Uint64" {
					return true
				}
				if fullReducers[name] || name == "CRed" || name == "BRedAddLazy" {
					for _, a := range x.Args {
						if exprString(a) == chain+"["+idx+"]" {
							return true
						}
					}
					return false
				}
				if tv, ok := info.Types[x.Fun]; ok && tv.IsType() && len(x.Args) == 1 {
					return okDef(x.Args[0], chain, idx, at, depth+1)
				}
				return false
			case *ast.IndexExpr:
				// X.Coeffs[idx][j]
				if inner, ok := unparen(x.X).(*ast.IndexExpr); ok {
					return exprString(inner.Index) == idx
				}
				return false
			case *ast.BinaryExpr:
				if x.Op == token.SUB && exprString(x.X) == chain+"["+idx+"]" {
					return true
				}
				if x.Op == token.REM && exprString(x.Y) == chain+"["+idx+"]" {
					return true
				}
				return false
			case *ast.Ident:
				v, ok := info.Uses[x].(*types.Var)
				if !ok {
					return false
				}
				if rd == nil {
					rd = reachingDefs(info, fd)
				}
				use := rd
				// inside a closure: the definitions that reach are those of the closure's own body
				if lit := enclosingFuncLit(parentMapCached(fd), at); lit != nil {
					if litDecls[lit] == nil {
						litDecls[lit] = &ast.FuncDecl{Name: ast.NewIdent("closure"), Type: lit.Type, Body: lit.Body}
					}
					use = reachingDefs(info, litDecls[lit])
				}
				rhs, initial, ok := use.defsAt(at, v)
				if !ok || initial || len(rhs) == 0 {
					return false
				}
				for _, r := range rhs {
					if !okDef(r, chain, idx, at, depth+1) {
						return false
					}
				}
				return true
			}
			return false
		}
		ast.Inspect(fd.Body, func(x ast.Node) bool {
			be, ok := x.(*ast.BinaryExpr)
			if !ok || be.Op != token.SUB {
				return true
			}
			ie, ok := unparen(be.X).(*ast.IndexExpr)
			if !ok || !isChain(ie.X) {
				return true
			}
			if tv, ok := info.Types[be.Y]; ok && tv.Value != nil {
				return true // M[i] - 1
			}
			n++
			chain, idx := exprString(ie.X), exprString(ie.Index)
			key := fmt.Sprintf("MODSUB:%s#%s", fkey, exprString(be))
			if okDef(be.Y, chain, idx, be, 0) {
				out = append(out, withProps(okOb("MODSUB", key, c.Rel(be.Pos()), "the subtrahend is a residue modulo the same element of the chain on every reaching definition", true), bufPropsRing(fkey)...))
			} else {
				out = append(out, withProps(violOb("MODSUB", key, c.Rel(be.Pos()), fmt.Sprintf("%s computes %s but a definition of %s that reaches it is not a reduction modulo %s[%s] (nor a coefficient of that index): a value above that modulus makes the subtraction wrap around 2^64", fkey, exprString(be), exprString(be.Y), chain, idx)), bufPropsRing(fkey)...))
			}
			return true
		})
	})
	c.Stats["modsub_sites"] = n
	return out
}

func bufPropsRing(fkey string) []string {
	switch {
	case strings.HasPrefix(fkey, "ring"):
		return []string{"C02"}
	case strings.Contains(fkey, "bootstrapping"):
		return []string{"C18"}
	case strings.HasPrefix(fkey, "schemes/ckks"):
		return []string{"C07"}
	}
	return []string{"C04"}
}

func init() {
	core.Register(&core.Rule{Name: "MODSUB", Props: []string{"C02", "C18", "C07", "C04"},
		Doc: "in every subtraction `M[i] - E` with M a chain of moduli (local/parameter Q, P, moduli of type []uint64), every reaching definition of E is a reduction with modulus argument M[i], a coefficient of the same index, or M[i] - … itself (functions named …SmallNorm… excluded)",
		Run: func(c *core.Ctx) []ob {
			out := scanModSub(c)
			for _, o := range control(c, "MODSUB", scanModSub, "lvfixture.foldDigit") {
				out = append(out, withProps(o, "C02", "C18", "C07", "C04"))
			}
			for _, o := range core.Floor("MODSUB", nil, "modulus-minus-value subtractions", c.Stats["modsub_sites"], 6) {
				out = append(out, withProps(o, "C02", "C18", "C07", "C04"))
			}
			return out
		}})
}

// MULMOD — a product reduced modulo m has not been formed in native uint64 arithmetic.
//
// `(a * b) % m` with uint64 operands is the product modulo 2^64 reduced modulo m: right only while a*b < 2^64, i.e. for
// moduli below 32 bits. The library's moduli (primes up to 61 bits, plaintext moduli up to 61 bits, scales modulo t)
// are not: products go through bits.Mul64/BRed/MRed or math/big. Rule: no `%` has, as its left operand, a native
// product of two non-constant uint64 values (directly, or through a local whose only definitions are such products).
func scanMulMod(c *core.Ctx) []ob {
	var out []ob
	n := 0
	c.FuncDecls(func(pk *packages.Package, file *ast.File, fd *ast.FuncDecl) {
		if fd.Body == nil || fileIsTestSupport(c.Program, fd.Pos()) || inExamples(pk) {
			return
		}
		info := pk.TypesInfo
		fkey := core.FuncKey(pk, fd)
		isU64 := func(e ast.Expr) bool {
			t := info.TypeOf(e)
			if t == nil {
				return false
			}
			b, ok := t.Underlying().(*types.Basic)
			return ok && (b.Kind() == types.Uint64 || b.Kind() == types.Uint)
		}
		isConst := func(e ast.Expr) bool {
			tv, ok := info.Types[e]
			return ok && tv.Value != nil
		}
		nativeProduct := func(e ast.Expr) *ast.BinaryExpr {
			be, ok := unparen(e).(*ast.BinaryExpr)
			if ok && be.Op == token.MUL && isU64(be) && !isConst(be.X) && !isConst(be.Y) {
				return be
			}
			return nil
		}
		var rd *reachInfo
		ast.Inspect(fd.Body, func(x ast.Node) bool {
			var left ast.Expr
			var at ast.Node
			switch v := x.(type) {
			case *ast.BinaryExpr:
				if v.Op == token.REM && isU64(v) {
					left, at = v.X, v
				}
			case *ast.AssignStmt:
				if v.Tok == token.REM_ASSIGN && len(v.Lhs) == 1 && isU64(v.Lhs[0]) {
					left, at = v.Lhs[0], v
				}
			}
			if left == nil {
				return true
			}
			n++
			var prod *ast.BinaryExpr
			if p := nativeProduct(left); p != nil {
				prod = p
			} else if id, ok := unparen(left).(*ast.Ident); ok {
				if v, ok := info.Uses[id].(*types.Var); ok && !v.IsField() {
					if rd == nil {
						rd = reachingDefs(info, fd)
					}
					if rhs, initial, ok := rd.defsAt(at, v); ok && !initial && len(rhs) > 0 {
						all := true
						for _, r := range rhs {
							if r == nil || nativeProduct(r) == nil {
								all = false
							}
						}
						if all {
							prod = nativeProduct(rhs[0])
						}
					}
				}
			}
			if prod != nil {
				key := fmt.Sprintf("MULMOD:%s#%s", fkey, exprString(prod))
				out = append(out, violOb("MULMOD", key, c.Rel(at.Pos()), fmt.Sprintf("%s reduces the native uint64 product %s with %%: the product is only exact modulo 2^64, the result is wrong as soon as the factors exceed 32 bits (the library's moduli go up to 61 bits)", fkey, exprString(prod))))
			}
			return true
		})
	})
	c.Stats["mulmod_sites"] = n
	if !c.IsFixture {
		out = append(out, okOb("MULMOD", "MULMOD:summary", "", fmt.Sprintf("%d uint64 remainder operations examined, none reduces a native product", n), true))
	}
	return out
}

func init() {
	core.Register(&core.Rule{Name: "MULMOD", Props: []string{"C01", "C02", "C05", "C06", "C15", "C19"},
		Doc: "no uint64 `%` (or `%=`) has as its left operand a native product of two non-constant uint64 values, directly or through a local all of whose reaching definitions are such products",
		Run: func(c *core.Ctx) []ob {
			out := scanMulMod(c)
			out = append(out, control(c, "MULMOD", scanMulMod, "lvfixture.mulScales")...)
			out = append(out, core.Floor("MULMOD", nil, "uint64 remainder operations", c.Stats["mulmod_sites"], 3)...)
			return out
		}})
}

// LAZYSUB — a lazily reduced value is not subtracted from the modulus itself.
//
// MRedLazy / BRedLazy / …Lazy return values in [0, 2q-1]. `a + q - MRedLazy(…)` underflows whenever the lazy result
// exceeds a + q; the library subtracts lazy results from 2q (`x + twoQ - MRedLazy(…)`) and fully reduced ones (MRed,
// BRed, CRed) from q. Rule: in package ring, no subtraction has a call of a …Lazy reduction primitive as its right
// operand while the term it is subtracted from (the right-most additive term of the left operand) is the modulus
// itself (an identifier named modulus/q/qi/Q, or a `.Modulus` selector) rather than a multiple of it. The same holds for
// the vector elements subtracted in a kernel whose name contains TwoModulus (its operand is in [0, 2q-1] by contract).
func scanLazySub(c *core.Ctx) []ob {
	var out []ob
	n := 0
	c.FuncDecls(func(pk *packages.Package, file *ast.File, fd *ast.FuncDecl) {
		if fd.Body == nil || fileIsTestSupport(c.Program, fd.Pos()) || !(c.IsFixture || strings.HasPrefix(core.ShortPkg(pk.PkgPath), "ring")) {
			return
		}
		info := pk.TypesInfo
		fkey := core.FuncKey(pk, fd)
		isModulus := func(e ast.Expr) bool {
			switch x := unparen(e).(type) {
			case *ast.Ident:
				switch x.Name {
				case "modulus", "q", "qi", "Q", "pi", "qj", "Modulus":
					return true
				}
			case *ast.SelectorExpr:
				return x.Sel.Name == "Modulus"
			}
			return false
		}
		var first ast.Node
		ast.Inspect(fd.Body, func(x ast.Node) bool {
			be, ok := x.(*ast.BinaryExpr)
			if !ok || be.Op != token.SUB {
				return true
			}
			if _, isIdx := unparen(be.Y).(*ast.IndexExpr); isIdx && strings.Contains(strings.ToLower(fd.Name.Name), "twomodulus") {
				// a kernel named …TwoModulus… takes its subtrahend in [0, 2q-1] by contract
				n++
				l := unparen(be.X)
				for {
					if b, ok := l.(*ast.BinaryExpr); ok && b.Op == token.ADD {
						l = unparen(b.Y)
						continue
					}
					break
				}
				if isModulus(l) && first == nil {
					first = be
				}
				return true
			}
			call, ok := unparen(be.Y).(*ast.CallExpr)
			if !ok {
				return true
			}
			fn := calleeFunc(info, call)
			if fn == nil || !strings.HasSuffix(fn.Name(), "Lazy") || fn.Pkg() == nil || !strings.Contains(fn.Pkg().Path(), "ring") && !c.IsFixture {
				return true
			}
			n++
			// right-most additive term of the left operand
			l := unparen(be.X)
			for {
				if b, ok := l.(*ast.BinaryExpr); ok && b.Op == token.ADD {
					l = unparen(b.Y)
					continue
				}
				break
			}
			if isModulus(l) && first == nil {
				first = be
			}
			return true
		})
		if first != nil {
			out = append(out, violOb("LAZYSUB", "LAZYSUB:"+fkey, c.Rel(first.Pos()), fmt.Sprintf("%s subtracts a lazily reduced value (range [0, 2q-1]) from the modulus itself in %s: the subtraction wraps around 2^64 whenever the lazy result exceeds what it is subtracted from; lazy results are subtracted from 2q", fkey, exprString(first.(ast.Expr)))))
		}
	})
	c.Stats["lazysub_sites"] = n
	if !c.IsFixture {
		out = append(out, okOb("LAZYSUB", "LAZYSUB:summary", "", fmt.Sprintf("%d subtractions of a lazily reduced value examined: each is taken from a multiple of the modulus", n), true))
	}
	return out
}

func init() {
	core.Register(&core.Rule{Name: "LAZYSUB", Props: []string{"C01", "C02"},
		Doc: "in package ring, no subtraction whose right operand is a call of a …Lazy reduction primitive (range [0, 2q-1]) is taken from the modulus itself (identifier modulus/q/qi/Q or .Modulus) instead of a multiple of it",
		Run: func(c *core.Ctx) []ob {
			out := scanLazySub(c)
			out = append(out, control(c, "LAZYSUB", scanLazySub, "lvfixture.subLazy")...)
			out = append(out, core.Floor("LAZYSUB", nil, "subtractions of lazily reduced values", c.Stats["lazysub_sites"], 30)...)
			return out
		}})
}

// MARGINMAX — an overflow margin is taken over the largest modulus of the chain up to the level, not over one modulus.
//
// `QiOverflowMargin(level)` = floor(2^64 / max(q_0..q_level)) is how many lazily reduced terms a uint64 accumulator
// can take for *every* residue. Computed from `qi[level]` alone it is too large whenever a lower prime is bigger
// (LogQ = {60, 30, 30}): the accumulators of the 60-bit residue wrap.
//
// Rule: in every method named …OverflowMargin, the divisor of the margin mentions a range of the chain (a slice
// expression such as `p.qi[:level+1]`, or a call of a Max function / a loop that keeps a maximum), never a single
// indexed modulus only.
func scanMarginMax(c *core.Ctx) []ob {
	var out []ob
	n := 0
	c.FuncDecls(func(pk *packages.Package, file *ast.File, fd *ast.FuncDecl) {
		if fd.Body == nil || !strings.HasSuffix(fd.Name.Name, "OverflowMargin") || fileIsTestSupport(c.Program, fd.Pos()) {
			return
		}
		info := pk.TypesInfo
		fkey := core.FuncKey(pk, fd)
		n++
		overRange, single := false, ast.Expr(nil)
		ast.Inspect(fd.Body, func(x ast.Node) bool {
			switch v := x.(type) {
			case *ast.SliceExpr:
				if _, ok := info.TypeOf(v.X).Underlying().(*types.Slice); ok {
					overRange = true
				}
			case *ast.RangeStmt:
				overRange = true
			case *ast.CallExpr:
				if fn := calleeFunc(info, v); fn != nil && strings.Contains(fn.Name(), "Max") {
					overRange = true
				}
			case *ast.IndexExpr:
				if sl, ok := info.TypeOf(v.X).Underlying().(*types.Slice); ok {
					if b, ok := sl.Elem().Underlying().(*types.Basic); ok && b.Kind() == types.Uint64 {
						single = v
					}
				}
			}
			return true
		})
		key := "MARGINMAX:" + fkey
		switch {
		case overRange:
			out = append(out, okOb("MARGINMAX", key, c.Rel(fd.Pos()), "the margin is computed over a range of the chain", true))
		case single != nil:
			out = append(out, violOb("MARGINMAX", key, c.Rel(single.Pos()), fmt.Sprintf("%s computes the overflow margin from the single modulus %s: a larger prime lower in the chain overflows the lazily accumulated sums the margin is meant to bound", fkey, exprString(single))))
		default:
			out = append(out, infoOb("MARGINMAX", key, c.Rel(fd.Pos()), "no modulus chain is mentioned: not decided"))
		}
	})
	c.Stats["marginmax_fns"] = n
	return out
}

func init() {
	core.Register(&core.Rule{Name: "MARGINMAX", Props: []string{"C19", "C04", "C12", "C20"},
		Doc: "every …OverflowMargin method computes its margin over a range of the modulus chain (slice expression, Max call or loop), never from a single indexed modulus",
		Run: func(c *core.Ctx) []ob {
			out := scanMarginMax(c)
			out = append(out, control(c, "MARGINMAX", scanMarginMax, "(marginParams).QOverflowMargin")...)
			out = append(out, core.Floor("MARGINMAX", nil, "overflow margin methods", c.Stats["marginmax_fns"], 2)...)
			return out
		}})
}

// BOUNDSCALE — the truncation bound of the Gaussian sampler is compared with the scaled sample.
//
// `Bound` is given in the units of the output (a multiple of sigma); the rejection test has to be made on
// `norm * sigma` (or on the integer built from it). `if norm <= bound` compares the unit normal with it: for the
// default parameters (sigma 3.2, bound 19.2) the sampler then accepts |x| up to 19.2 sigma = 61.
//
// Rule: in the methods of GaussianSampler, for every comparison (relational operator, or Cmp/CmpAbs call) one side of
// which is derived from the `Bound` field, the other side depends on a value derived from the `Sigma` field
// (dependence through assignments, and through calls that take both values as receiver/arguments).
func scanBoundScale(c *core.Ctx) []ob {
	var out []ob
	n := 0
	c.FuncDecls(func(pk *packages.Package, file *ast.File, fd *ast.FuncDecl) {
		if fd.Body == nil || fd.Recv == nil || !strings.Contains(core.RecvTypeName(fd), "GaussianSampler") || fileIsTestSupport(c.Program, fd.Pos()) {
			return
		}
		info := pk.TypesInfo
		fkey := core.FuncKey(pk, fd)
		// dependence edges: obj -> objs it is computed from; seeds: .Bound / .Sigma selectors
		deps := map[types.Object]map[types.Object]bool{}
		fromBound := map[types.Object]bool{}
		fromSigma := map[types.Object]bool{}
		var recvObj0 types.Object
		if len(fd.Recv.List) > 0 && len(fd.Recv.List[0].Names) > 0 {
			recvObj0 = info.Defs[fd.Recv.List[0].Names[0]]
		}
		objsOf := func(e ast.Node) []types.Object {
			var r []types.Object
			ast.Inspect(e, func(x ast.Node) bool {
				if id, ok := x.(*ast.Ident); ok {
					// the sampler itself is not a value: its fields are the seeds
					if v, ok := info.Uses[id].(*types.Var); ok && !v.IsField() && types.Object(v) != recvObj0 {
						r = append(r, v)
					}
				}
				return true
			})
			return r
		}
		mentionsField := func(e ast.Node, f string) bool {
			found := false
			ast.Inspect(e, func(x ast.Node) bool {
				if se, ok := x.(*ast.SelectorExpr); ok && se.Sel.Name == f {
					found = true
				}
				return !found
			})
			return found
		}
		addDep := func(dst types.Object, src ast.Node) {
			if deps[dst] == nil {
				deps[dst] = map[types.Object]bool{}
			}
			for _, o := range objsOf(src) {
				deps[dst][o] = true
			}
			if mentionsField(src, "Bound") {
				fromBound[dst] = true
			}
			if mentionsField(src, "Sigma") {
				fromSigma[dst] = true
			}
		}
		ast.Inspect(fd.Body, func(x ast.Node) bool {
			switch v := x.(type) {
			case *ast.AssignStmt:
				for i, l := range v.Lhs {
					id := rootIdent(l)
					if id == nil {
						continue
					}
					o := info.Defs[id]
					if o == nil {
						o = info.Uses[id]
					}
					if o == nil {
						continue
					}
					if len(v.Rhs) == len(v.Lhs) {
						addDep(o, v.Rhs[i])
					} else if len(v.Rhs) == 1 {
						addDep(o, v.Rhs[0])
					}
				}
			case *ast.CallExpr:
				// x.M(a, b): x and every pointer-like argument depend on all operands of the call (read-only methods excepted)
				if se, ok := unparen(v.Fun).(*ast.SelectorExpr); ok {
					switch se.Sel.Name {
					case "Cmp", "CmpAbs", "Sign", "BitLen", "Uint64", "Int64", "IsInt64", "IsUint64", "String", "Float64", "Text":
						return true
					}
				}
				var ptrs []types.Object
				var all []ast.Node
				if se, ok := unparen(v.Fun).(*ast.SelectorExpr); ok {
					all = append(all, se.X)
					if id := rootIdent(se.X); id != nil {
						if o, ok := info.Uses[id].(*types.Var); ok && !o.IsField() && types.Object(o) != recvObj0 {
							ptrs = append(ptrs, o)
						}
					}
				}
				for _, a := range v.Args {
					all = append(all, a)
					if id, ok := unparen(a).(*ast.Ident); ok {
						if o, ok := info.Uses[id].(*types.Var); ok && pointerLike(o.Type()) {
							ptrs = append(ptrs, o)
						}
					}
				}
				for _, p := range ptrs {
					for _, a := range all {
						addDep(p, a)
					}
				}
			}
			return true
		})
		var reach func(o types.Object, set map[types.Object]bool, seen map[types.Object]bool) bool
		reach = func(o types.Object, set map[types.Object]bool, seen map[types.Object]bool) bool {
			if set[o] {
				return true
			}
			if seen[o] {
				return false
			}
			seen[o] = true
			for d := range deps[o] {
				if reach(d, set, seen) {
					return true
				}
			}
			return false
		}
		sideIs := func(e ast.Expr, set map[types.Object]bool, field string) bool {
			if mentionsField(e, field) {
				return true
			}
			for _, o := range objsOf(e) {
				if reach(o, set, map[types.Object]bool{}) {
					return true
				}
			}
			return false
		}
		check := func(at ast.Node, a, b ast.Expr) {
			var other ast.Expr
			switch {
			case sideIs(a, fromBound, "Bound") && !sideIs(a, fromSigma, "Sigma"):
				other = b
			case sideIs(b, fromBound, "Bound") && !sideIs(b, fromSigma, "Sigma"):
				other = a
			default:
				return
			}
			// constants (bound > 0xffff…) are range tests on the bound itself
			if tv, ok := info.Types[other]; ok && tv.Value != nil {
				return
			}
			n++
			key := fmt.Sprintf("BOUNDSCALE:%s#%s", fkey, exprString(at.(ast.Expr)))
			if sideIs(other, fromSigma, "Sigma") {
				out = append(out, okOb("BOUNDSCALE", key, c.Rel(at.Pos()), "the value compared with the bound depends on sigma", true))
			} else {
				out = append(out, violOb("BOUNDSCALE", key, c.Rel(at.Pos()), fmt.Sprintf("%s compares %s with the truncation bound although it does not depend on sigma: the bound is in units of the scaled sample, the unit normal passes it for every |x| up to bound (not bound/sigma)", fkey, exprString(other))))
			}
		}
		ast.Inspect(fd.Body, func(x ast.Node) bool {
			switch v := x.(type) {
			case *ast.BinaryExpr:
				switch v.Op {
				case token.LSS, token.LEQ, token.GTR, token.GEQ:
					check(v, v.X, v.Y)
				}
			case *ast.CallExpr:
				if se, ok := unparen(v.Fun).(*ast.SelectorExpr); ok && (se.Sel.Name == "Cmp" || se.Sel.Name == "CmpAbs") && len(v.Args) == 1 {
					check(v, se.X, v.Args[0])
				}
			}
			return true
		})
	})
	c.Stats["boundscale_sites"] = n
	return out
}

func init() {
	core.Register(&core.Rule{Name: "BOUNDSCALE", Props: []string{"C17", "C03"},
		Doc: "in the methods of GaussianSampler, a comparison one side of which derives from the Bound field has its other side depending on a value derived from the Sigma field",
		Run: func(c *core.Ctx) []ob {
			out := scanBoundScale(c)
			out = append(out, control(c, "BOUNDSCALE", scanBoundScale, "(GaussianSamplerFix).draw")...)
			out = append(out, core.Floor("BOUNDSCALE", nil, "comparisons with the truncation bound", c.Stats["boundscale_sites"], 1)...)
			return out
		}})
}

// SIZEDEP — the size of the auxiliary tensoring basis accounts for the ring degree.
//
// The BFV-style tensoring computes a product of two polynomials of N coefficients below Q/2 over the integers: its
// coefficients reach N·Q²/4, so the auxiliary basis QMul must have about log2(Q) + log2(N) bits. The two places that
// size it (`nbQiMul` in bgv.NewParameters, `levelQMul[i]` in newEvaluatorPrecomp) add `LogN()` to the bit length of Q;
// dropped, the product wraps modulo Q·QMul for large N (the tests run at LogN = 10..13 with slack).
//
// Frozen table (function, variable, quantity): every assignment to the variable has a right-hand side that depends on
// the quantity — mentioned directly, or through locals whose every definition mentions it.
var sizeDepTable = []struct{ fn, variable, quantity, why string }{
	{"schemes/bgv.NewParameters", "nbQiMul", "LogN", "the tensoring product over the integers has log2(N) more bits than Q^2"},
	{"schemes/bgv.newEvaluatorPrecomp", "levelQMul", "LogN", "the number of auxiliary primes needed at a level grows with log2(N)"},
	{"ring.(SubRing).generateNTTConstants", "NInv", `\.N\b`, "the inverse transform is normalised by the number of coefficients (N, 2N for the conjugate-invariant transform), whatever the order of the root"},
}

func scanSizeDep(c *core.Ctx) []ob {
	var out []ob
	n := 0
	c.FuncDecls(func(pk *packages.Package, file *ast.File, fd *ast.FuncDecl) {
		if fd.Body == nil {
			return
		}
		fkey := core.FuncKey(pk, fd)
		for _, e := range sizeDepTable {
			if e.fn != fkey && !(c.IsFixture && strings.HasSuffix(fkey, "auxBasisSize") && e.variable == "nbQiMul") {
				continue
			}
			info := pk.TypesInfo
			defs := map[types.Object][]ast.Expr{}
			ast.Inspect(fd.Body, func(x ast.Node) bool {
				if as, ok := x.(*ast.AssignStmt); ok && len(as.Lhs) == len(as.Rhs) && (as.Tok == token.ASSIGN || as.Tok == token.DEFINE) {
					for i, l := range as.Lhs {
						// a field of the object under construction (`s.NInv = …`) is filed under the field
						if se, ok := unparen(l).(*ast.SelectorExpr); ok {
							if fo := info.Uses[se.Sel]; fo != nil {
								defs[fo] = append(defs[fo], as.Rhs[i])
								continue
							}
						}
						if id := rootIdent(l); id != nil {
							o := info.Defs[id]
							if o == nil {
								o = info.Uses[id]
							}
							if o != nil {
								defs[o] = append(defs[o], as.Rhs[i])
							}
						}
					}
				}
				return true
			})
			var depends func(x ast.Node, depth int) bool
			depends = func(x ast.Node, depth int) bool {
				if regexp.MustCompile(e.quantity).MatchString(exprString(x.(ast.Expr))) {
					return true
				}
				if depth > 4 {
					return false
				}
				found := false
				ast.Inspect(x, func(y ast.Node) bool {
					if id, ok := y.(*ast.Ident); ok && !found {
						if ds := defs[info.Uses[id]]; len(ds) > 0 {
							all := true
							for _, d := range ds {
								if !depends(d, depth+1) {
									all = false
								}
							}
							if all {
								found = true
							}
						}
					}
					return !found
				})
				return found
			}
			var target types.Object
			for o := range defs {
				if o.Name() == e.variable {
					target = o
				}
			}
			n++
			key := fmt.Sprintf("SIZEDEP:%s#%s", fkey, e.variable)
			if target == nil {
				out = append(out, infoOb("SIZEDEP", key, c.Rel(fd.Pos()), "the variable is no longer assigned under this name: not decided"))
				continue
			}
			bad := ast.Expr(nil)
			for _, d := range defs[target] {
				// the allocation `make([]int, n)` of a table is not a size computation
				if call, ok := unparen(d).(*ast.CallExpr); ok {
					if id, ok := unparen(call.Fun).(*ast.Ident); ok && id.Name == "make" {
						continue
					}
				}
				if !depends(d, 0) {
					bad = d
				}
			}
			if bad != nil {
				out = append(out, violOb("SIZEDEP", key, c.Rel(bad.Pos()), fmt.Sprintf("%s computes %s as %s, which does not depend on %s: %s", fkey, e.variable, exprString(bad), e.quantity, e.why)))
			} else {
				out = append(out, okOb("SIZEDEP", key, c.Rel(fd.Pos()), "every definition of the size depends on "+e.quantity, true))
			}
		}
	})
	c.Stats["sizedep_sites"] = n
	return out
}

func init() {
	core.Register(&core.Rule{Name: "SIZEDEP", Props: []string{"C19", "C05"},
		Doc: "in the two places that size the BFV auxiliary multiplication basis (frozen table), every assignment of the size depends on LogN (directly or through locals all of whose definitions do)",
		Run: func(c *core.Ctx) []ob {
			out := scanSizeDep(c)
			out = append(out, control(c, "SIZEDEP", scanSizeDep, "lvfixture.auxBasisSize")...)
			return out
		}})
}

// CREDFORM — CRed is applied to a sum or difference of residues, not to a value of unknown size.
//
// CRed(x, q) subtracts q once: it reduces only x < 2q. Every use outside the unrolled kernels has the form
// `CRed(a + b, q)`, `CRed(a + q - b, q)`, `CRed(q - c, q)`: the conditional subtraction after an addition of residues.
// `CRed(coeff, P[i])` on a digit of another prime, or `CRed(uint64(c), T)` on a raw input value, replaces a full
// reduction (BRedAdd) by one that is wrong as soon as the value reaches 2q.
//
// Rule: outside ring/vec_ops.go and ring/ntt.go, the first argument of every CRed call is an addition or subtraction
// (directly, or a local all of whose reaching definitions are).
func scanCRedForm(c *core.Ctx) []ob {
	var out []ob
	n := 0
	c.FuncDecls(func(pk *packages.Package, file *ast.File, fd *ast.FuncDecl) {
		fnm := c.RelFile(fd.Pos())
		if fd.Body == nil || fileIsTestSupport(c.Program, fd.Pos()) || inExamples(pk) || strings.HasSuffix(fnm, "vec_ops.go") || strings.HasSuffix(fnm, "ntt.go") || strings.HasSuffix(fnm, "modular_reduction.go") {
			return
		}
		info := pk.TypesInfo
		fkey := core.FuncKey(pk, fd)
		var rd *reachInfo
		var additive func(e ast.Expr, at ast.Node, depth int) bool
		additive = func(e ast.Expr, at ast.Node, depth int) bool {
			switch x := unparen(e).(type) {
			case *ast.BinaryExpr:
				return x.Op == token.ADD || x.Op == token.SUB
			case *ast.Ident:
				if depth > 2 {
					return false
				}
				v, ok := info.Uses[x].(*types.Var)
				if !ok || v.IsField() {
					return false
				}
				if rd == nil {
					rd = reachingDefs(info, fd)
				}
				use := rd
				// inside a closure: the definitions that reach are those of the closure's own body
				if lit := enclosingFuncLit(parentMapCached(fd), at); lit != nil {
					if litDecls[lit] == nil {
						litDecls[lit] = &ast.FuncDecl{Name: ast.NewIdent("closure"), Type: lit.Type, Body: lit.Body}
					}
					use = reachingDefs(info, litDecls[lit])
				}
				rhs, initial, ok := use.defsAt(at, v)
				if !ok || initial || len(rhs) == 0 {
					return false
				}
				for _, r := range rhs {
					if r == nil || !additive(r, at, depth+1) {
						return false
					}
				}
				return true
			}
			return false
		}
		ord := 0
		ast.Inspect(fd.Body, func(x ast.Node) bool {
			call, ok := x.(*ast.CallExpr)
			if !ok || len(call.Args) != 2 {
				return true
			}
			fn := calleeFunc(info, call)
			if fn == nil || fn.Name() != "CRed" || fn.Pkg() == nil || !(strings.HasSuffix(fn.Pkg().Path(), "/ring") || c.IsFixture) {
				return true
			}
			n++
			ord++
			key := fmt.Sprintf("CREDFORM:%s#%d", fkey, ord)
			if additive(call.Args[0], call, 0) {
				out = append(out, withProps(okOb("CREDFORM", key, c.Rel(call.Pos()), "CRed follows an addition/subtraction", true), propsForKey(fkey)...))
			} else {
				out = append(out, withProps(violOb("CREDFORM", key, c.Rel(call.Pos()), fmt.Sprintf("%s applies CRed (one conditional subtraction) to %s, which is not a sum or difference of residues: a value of 2q or more is not reduced", fkey, exprString(call.Args[0]))), propsForKey(fkey)...))
			}
			return true
		})
	})
	c.Stats["credform_sites"] = n
	return out
}

func init() {
	core.Register(&core.Rule{Name: "CREDFORM", Wide: true, Props: []string{"C01", "C02", "C03", "C04", "C05", "C06", "C07", "C08", "C09", "C10", "C11", "C12", "C13", "C14", "C15", "C16", "C17", "C18", "C19", "C20"},
		Doc: "outside the unrolled kernels, the first argument of every CRed call is an addition or subtraction (directly or through locals all of whose reaching definitions are)",
		Run: func(c *core.Ctx) []ob {
			out := scanCRedForm(c)
			out = append(out, control(c, "CREDFORM", scanCRedForm, "lvfixture.credRaw")...)
			out = append(out, core.Floor("CREDFORM", nil, "CRed calls outside the kernels", c.Stats["credform_sites"], 8)...)
			return out
		}})
}

// KERNELUNIQ — two different arithmetic methods are not wired to the same kernel.
//
// Every SubRing method is a one-line dispatch to a vector kernel (`s.MulCoeffsMontgomeryThenSubLazy` →
// `mulcoeffsmontgomerythensublazyvec(p1, p2, p3, s.Modulus, s.MRedConstant)`). Dispatching two distinct methods — with
// distinct documented ranges — to one kernel with the same arguments makes them the same function: at most one of the
// two contracts holds. (Wiring the strict-product variant to the lazy-product kernel only shows when the accumulator is
// near the top of its range.)
//
// Rule: among the methods of package ring whose body is a single call of a package-level function of that package, no
// two methods call the same function with the same arguments (parameters compared by position).
func scanKernelUniq(c *core.Ctx) []ob {
	var out []ob
	type site struct {
		fkey string
		pos  token.Pos
	}
	groups := map[string][]site{}
	n := 0
	c.FuncDecls(func(pk *packages.Package, file *ast.File, fd *ast.FuncDecl) {
		rel := core.ShortPkg(pk.PkgPath)
		if fd.Body == nil || fd.Recv == nil || fileIsTestSupport(c.Program, fd.Pos()) || !(c.IsFixture || rel == "ring") || len(fd.Body.List) != 1 {
			return
		}
		es, ok := fd.Body.List[0].(*ast.ExprStmt)
		if !ok {
			return
		}
		call, ok := es.X.(*ast.CallExpr)
		if !ok {
			return
		}
		info := pk.TypesInfo
		fn := calleeFunc(info, call)
		if fn == nil || fn.Pkg() != pk.Types || fn.Type().(*types.Signature).Recv() != nil {
			return
		}
		if c.IsFixture && !strings.HasSuffix(fn.Name(), "vec") {
			return
		}
		// parameters by position
		pos := map[types.Object]string{}
		i := 0
		for _, f := range fd.Recv.List {
			for _, nm := range f.Names {
				pos[info.Defs[nm]] = "#recv"
			}
		}
		for _, f := range fd.Type.Params.List {
			for _, nm := range f.Names {
				pos[info.Defs[nm]] = fmt.Sprintf("#%d", i)
				i++
			}
		}
		var args []string
		for _, a := range call.Args {
			str := exprString(a)
			ast.Inspect(a, func(x ast.Node) bool {
				if id, ok := x.(*ast.Ident); ok {
					if p, ok := pos[info.Uses[id]]; ok {
						str = regexp.MustCompile(`\b`+regexp.QuoteMeta(id.Name)+`\b`).ReplaceAllString(str, p)
					}
				}
				return true
			})
			args = append(args, str)
		}
		n++
		recv := ""
		if len(fd.Recv.List) > 0 {
			recv = exprString(fd.Recv.List[0].Type)
		}
		g := recv + "|" + fn.Name() + "(" + strings.Join(args, ",") + ")"
		groups[g] = append(groups[g], site{core.FuncKey(pk, fd), fd.Pos()})
	})
	var keys []string
	for g := range groups {
		keys = append(keys, g)
	}
	sort.Strings(keys)
	for _, g := range keys {
		ss := groups[g]
		if len(ss) < 2 {
			continue
		}
		sort.Slice(ss, func(i, j int) bool { return ss[i].fkey < ss[j].fkey })
		var names []string
		for _, s := range ss {
			names = append(names, s.fkey)
		}
		out = append(out, violOb("KERNELUNIQ", "KERNELUNIQ:"+strings.Join(names, "="), c.Rel(ss[0].pos), fmt.Sprintf("%s are all the single call %s: distinct operations with distinct documented ranges cannot be the same function", strings.Join(names, " and "), g[strings.Index(g, "|")+1:])))
	}
	c.Stats["kerneluniq_sites"] = n
	if !c.IsFixture {
		out = append(out, okOb("KERNELUNIQ", "KERNELUNIQ:summary", "", fmt.Sprintf("%d one-call dispatch methods of package ring examined: no two share kernel and arguments", n), true))
	}
	return out
}

func init() {
	core.Register(&core.Rule{Name: "KERNELUNIQ", Props: []string{"C01"},
		Doc: "among the methods of package ring whose body is a single call of a package-level function, no two (of the same receiver type) call the same function with the same arguments, parameters compared by position",
		Run: func(c *core.Ctx) []ob {
			out := scanKernelUniq(c)
			out = append(out, control(c, "KERNELUNIQ", scanKernelUniq, "toyRing")...)
			out = append(out, core.Floor("KERNELUNIQ", nil, "one-call dispatch methods of package ring", c.Stats["kerneluniq_sites"], 30)...)
			return out
		}})
}

// litDecls: closures wrapped as declarations so that the per-function analyses can be run on their bodies.
var litDecls = map[*ast.FuncLit]*ast.FuncDecl{}

func enclosingFuncLit(pm map[ast.Node]ast.Node, n ast.Node) *ast.FuncLit {
	for p := pm[n]; p != nil; p = pm[p] {
		if fl, ok := p.(*ast.FuncLit); ok {
			return fl
		}
	}
	return nil
}
