package rules

import (
	"fmt"
	"go/ast"
	"go/token"
	"go/types"
	"os"
	"regexp"
	"sort"
	"strings"

	"golang.org/x/tools/go/packages"

	"lvcheck/internal/core"
)

// NOISE — noise must-pass-through.
//
// Scope: every function of core/rlwe, core/rgsw and multiparty/... that reads from an error sampler (a ring.Sampler
// whose construction traces to NewSampler(_, _, <Xe()|noise>, _)), plus a frozen list of emitters that must be so.
// The function body is interpreted structurally (if/switch/for/return) with a must-state:
//   noisy  = set of polynomial cells that certainly contain fresh error-sampler output on every path reaching here
//   alias  = flow-sensitive aliases of locals assigned in branches
// Transfer functions are given per ring operation (table below). Obligation: every polynomial cell rooted at a
// parameter (or at a local that views one) into which the function stores the result of arithmetic must be noisy
// when its scope ends (loop body end for loop-local views, success return otherwise).

type samplerKind int

const (
	skUnknown samplerKind = iota
	skError
	skSecret
	skUniform
)

// ring operation classes by method name (receiver in ring / ringqp / BasisExtender)
var (
	opUnary = map[string]bool{"NTT": true, "INTT": true, "NTTLazy": true, "INTTLazy": true, "MForm": true, "MFormLazy": true, "IMForm": true,
		"Neg": true, "Reduce": true, "ReduceLazy": true, "MulScalar": true, "MulScalarBigint": true, "MulRNSScalarMontgomery": true,
		"Automorphism": true, "AutomorphismNTT": true, "AutomorphismNTTWithIndex": true, "MulByVectorMontgomery": true,
		"MultByMonomial": true, "Shift": true, "DivRoundByLastModulus": true, "DivFloorByLastModulus": true,
		"DivRoundByLastModulusNTT": true, "DivFloorByLastModulusNTT": true, "AddScalar": true, "SubScalar": true, "AddScalarBigint": true, "SubScalarBigint": true}
	opBinaryAdd = map[string]bool{"Add": true, "AddLazy": true, "Sub": true, "SubLazy": true}
	opAccum     = map[string]bool{"MulCoeffsMontgomeryThenAdd": true, "MulCoeffsMontgomeryThenAddLazy": true, "MulCoeffsMontgomeryLazyThenAddLazy": true,
		"MulCoeffsMontgomeryThenSub": true, "MulCoeffsMontgomeryThenSubLazy": true, "MulCoeffsMontgomeryLazyThenSubLazy": true,
		"MulCoeffsBarrettThenAdd": true, "MulCoeffsBarrettThenAddLazy": true, "MulScalarThenAdd": true, "MulScalarThenSub": true,
		"MulScalarBigintThenAdd": true, "MulDoubleRNSScalarThenAdd": true, "AutomorphismNTTWithIndexThenAddLazy": true, "MulByVectorMontgomeryThenAddLazy": true}
	opProduct = map[string]bool{"MulCoeffsMontgomery": true, "MulCoeffsMontgomeryLazy": true, "MulCoeffsBarrett": true, "MulCoeffsBarrettLazy": true,
		"MulCoeffsMontgomeryLazyThenNeg": true}
)

type noiseState struct {
	// status of each touched cell: true = carries error-sampler output, false = written without (dirty).
	// Cells absent from the map are untouched on this path.
	noisy   map[string]bool
	alias   map[types.Object]string
	written map[string]token.Pos
}

func (s *noiseState) clone() *noiseState {
	n := &noiseState{map[string]bool{}, map[types.Object]string{}, map[string]token.Pos{}}
	for k, v := range s.noisy {
		n.noisy[k] = v
	}
	for k, v := range s.alias {
		n.alias[k] = v
	}
	for k, v := range s.written {
		n.written[k] = v
	}
	return n
}

// lookup returns the status of the cell or of its closest covering prefix.
func (s *noiseState) lookup(c string) (noisy bool, touched bool) {
	best := -1
	for k, v := range s.noisy {
		if cellPrefix(k, c) && len(k) > best {
			best = len(k)
			noisy, touched = v, true
		}
	}
	if !touched {
		if v, ok := s.noisy[c+".Q"]; ok {
			return v, true
		}
	}
	return
}

// joinNoise: a cell touched on one path only keeps its status (the other path emits nothing into it);
// a cell touched on both is noisy only if it is on both.
func joinNoise(a, b *noiseState) *noiseState {
	if a == nil {
		return b
	}
	if b == nil {
		return a
	}
	n := &noiseState{map[string]bool{}, map[types.Object]string{}, map[string]token.Pos{}}
	for k, v := range a.noisy {
		if bv, bt := b.lookup(k); bt {
			n.noisy[k] = v && bv
		} else {
			n.noisy[k] = v
		}
	}
	for k, v := range b.noisy {
		if _, done := n.noisy[k]; done {
			continue
		}
		if av, at := a.lookup(k); at {
			n.noisy[k] = v && av
		} else {
			n.noisy[k] = v
		}
	}
	for k, v := range a.alias {
		if b.alias[k] == v {
			n.alias[k] = v
		}
	}
	for k, v := range a.written {
		n.written[k] = v
	}
	for k, v := range b.written {
		if _, ok := n.written[k]; !ok {
			n.written[k] = v
		}
	}
	return n
}

func cellPrefix(p, c string) bool {
	if p == c {
		return true
	}
	return strings.HasPrefix(c, p) && (c[len(p)] == '.' || c[len(p)] == '[')
}

func (s *noiseState) isNoisy(c string) bool {
	if c == "" {
		return false
	}
	v, t := s.lookup(c)
	return t && v
}

func (s *noiseState) setNoisy(c string, v bool) {
	if c == "" {
		return
	}
	for k, old := range s.noisy {
		if k == c {
			continue
		}
		if cellPrefix(c, k) {
			// extensions of the cell are overwritten with it
			delete(s.noisy, k)
		} else if cellPrefix(k, c) {
			// a covering prefix becomes stale: split a QP polynomial into its halves, otherwise forget it
			delete(s.noisy, k)
			for _, half := range []string{".Q", ".P"} {
				sib := k + half
				if !cellPrefix(sib, c) {
					if _, ok := s.noisy[sib]; !ok && (c == k+".Q" || c == k+".P" || strings.HasPrefix(c, k+".Q") || strings.HasPrefix(c, k+".P")) {
						s.noisy[sib] = old
					}
				}
			}
		}
	}
	s.noisy[c] = v
}

type noiseFn struct {
	sp       *samplerProv
	depth    int
	c        *core.Ctx
	pk       *packages.Package
	info     *types.Info
	fd       *ast.FuncDecl
	fkey     string
	static   map[types.Object]ast.Expr // single-definition aliases
	multi    map[types.Object]bool
	skind    func(e ast.Expr) samplerKind
	out      *[]ob
	nReads   int
	checked  map[string]bool
	scoped   map[string]bool
	expand   map[string][]aliasTarget
	loopVars []map[string]bool
	// closures: parameters of a local function literal being interpreted at one of its call sites -> the arguments
	bind         map[types.Object]ast.Expr
	closureDepth int
	closureRets  []*noiseState
	closures     map[types.Object]*ast.FuncLit
	closureAlts  map[types.Object][]*ast.FuncLit // a local assigned several literals (one per configuration)
}

// polyish reports whether t (through pointers) is a polynomial-like type worth tracking.
func polyish(t types.Type) bool {
	if t == nil {
		return false
	}
	t = deref(t)
	if n := namedOf(t); n != nil {
		switch n.Obj().Name() {
		case "Poly", "VectorQP", "Element", "Ciphertext", "Plaintext", "GadgetCiphertext", "Matrix", "Vector":
			return true
		}
		if strings.HasSuffix(n.Obj().Name(), "Share") || strings.HasSuffix(n.Obj().Name(), "CRP") {
			return true
		}
	}
	switch u := t.Underlying().(type) {
	case *types.Slice:
		return polyish(u.Elem())
	case *types.Array:
		return polyish(u.Elem())
	case *types.Struct:
		for i := 0; i < u.NumFields(); i++ {
			if n := namedOf(u.Field(i).Type()); n != nil && n.Obj().Name() == "Poly" {
				return true
			}
		}
	}
	return false
}

// cell computes the canonical storage name of a polynomial expression.
func (nf *noiseFn) cell(e ast.Expr, st *noiseState, depth int) string {
	if depth > 10 || e == nil {
		return ""
	}
	e = unparen(e)
	switch x := e.(type) {
	case *ast.Ident:
		o := nf.info.Uses[x]
		if o == nil {
			o = nf.info.Defs[x]
		}
		if o == nil {
			return ""
		}
		if d, ok := nf.bind[o]; ok {
			return nf.cell(d, st, depth+1)
		}
		if d, ok := nf.static[o]; ok {
			if c := nf.cell(d, st, depth+1); c != "" {
				return c
			}
		}
		if nf.multi[o] {
			if a, ok := st.alias[o]; ok && a != "" {
				return a
			}
			return "var:" + o.Name()
		}
		return o.Name()
	case *ast.StarExpr:
		return nf.cell(x.X, st, depth+1)
	case *ast.UnaryExpr:
		if x.Op == token.AND {
			return nf.cell(x.X, st, depth+1)
		}
	case *ast.SelectorExpr:
		// field of a struct-literal alias
		if id, ok := unparen(x.X).(*ast.Ident); ok {
			o := nf.info.Uses[id]
			if d, ok := nf.static[o]; ok {
				if cl, ok := unparen(d).(*ast.CompositeLit); ok {
					for _, el := range cl.Elts {
						if kv, ok := el.(*ast.KeyValueExpr); ok {
							if k, ok := kv.Key.(*ast.Ident); ok && k.Name == x.Sel.Name {
								return nf.cell(kv.Value, st, depth+1)
							}
						}
					}
				}
			}
		}
		// promoted / embedded fields are written explicitly in this code base
		base := nf.cell(x.X, st, depth+1)
		if base == "" {
			return ""
		}
		if sel := nf.info.Selections[x]; sel != nil && sel.Kind() != types.FieldVal {
			return ""
		}
		// Element embedded in Ciphertext: ct.Element.Value == ct.Value
		if x.Sel.Name == "Element" || x.Sel.Name == "GadgetCiphertext" || x.Sel.Name == "EvaluationKey" {
			return base
		}
		return base + "." + x.Sel.Name
	case *ast.IndexExpr:
		base := nf.cell(x.X, st, depth+1)
		if base == "" {
			return ""
		}
		return base + "[" + exprString(x.Index) + "]"
	case *ast.CallExpr:
		// x.El() returns the element itself
		if sel, ok := unparen(x.Fun).(*ast.SelectorExpr); ok && len(x.Args) == 0 && (sel.Sel.Name == "El") {
			return nf.cell(sel.X, st, depth+1)
		}
	}
	return ""
}

type aliasTarget struct{ suffix, target string }

// setN sets the noisy status of a cell and of the cells a branch-assigned variable may view.
func (nf *noiseFn) setN(st *noiseState, c string, v bool) {
	st.setNoisy(c, v)
	for _, c2 := range nf.viewsOf(c) {
		st.setNoisy(c2, v)
	}
}

// viewsOf expands a cell named through a branch-assigned variable ("var:x...") into the cells it may view.
func (nf *noiseFn) viewsOf(c string) []string {
	if !strings.HasPrefix(c, "var:") {
		return nil
	}
	name := c[4:]
	rest := ""
	if i := strings.IndexAny(name, ".["); i >= 0 {
		name, rest = name[:i], name[i:]
	}
	var out []string
	for _, t := range nf.expand[name] {
		switch {
		case strings.HasPrefix(rest, t.suffix):
			out = append(out, t.target+rest[len(t.suffix):])
		case strings.HasPrefix(t.suffix, rest):
			out = append(out, t.target)
		}
	}
	return out
}

func (nf *noiseFn) markWritten(st *noiseState, c string, pos token.Pos) {
	if c == "" {
		return
	}
	if _, ok := st.written[c]; !ok {
		st.written[c] = pos
	}
	for _, c2 := range nf.viewsOf(c) {
		if _, ok := st.written[c2]; !ok {
			st.written[c2] = pos
		}
	}
}

// transferCall applies the effect of one call.
func (nf *noiseFn) transferCall(call *ast.CallExpr, st *noiseState) {
	sel, ok := unparen(call.Fun).(*ast.SelectorExpr)
	if !ok {
		// a closure of the function (`sample := func(pol ringqp.Poly) { … }` … `sample(h0)`): its body is interpreted at
		// the call with the parameters standing for the arguments
		if id, plain := unparen(call.Fun).(*ast.Ident); plain {
			if lit0 := nf.closureOf(id); lit0 != nil && nf.closureDepth < 2 {
				alts := nf.closureAlts[nf.info.Uses[id]]
				if len(alts) == 0 {
					alts = []*ast.FuncLit{lit0}
				}
				var joined *noiseState
				for _, lit := range alts {
					branch := st.clone()
					nf.runClosure(lit, call, branch)
					joined = joinNoise(joined, branch)
				}
				if joined != nil {
					*st = *joined
				}
				return
			}
			if lit := (*ast.FuncLit)(nil); lit != nil {
				saved := map[types.Object]ast.Expr{}
				i := 0
				for _, fl := range lit.Type.Params.List {
					for _, nm := range fl.Names {
						if o := nf.info.Defs[nm]; o != nil && i < len(call.Args) {
							if old, had := nf.bind[o]; had {
								saved[o] = old
							}
							if nf.bind == nil {
								nf.bind = map[types.Object]ast.Expr{}
							}
							nf.bind[o] = call.Args[i]
						}
						i++
					}
				}
				nf.closureDepth++
				savedRets := nf.closureRets
				nf.closureRets = nil
				r := nf.exec(lit.Body.List, st.clone(), nil)
				for _, rs := range nf.closureRets {
					r = joinNoise(r, rs)
				}
				nf.closureRets = savedRets
				if r != nil {
					*st = *r
				}
				nf.closureDepth--
				for _, fl := range lit.Type.Params.List {
					for _, nm := range fl.Names {
						if o := nf.info.Defs[nm]; o != nil {
							if old, had := saved[o]; had {
								nf.bind[o] = old
							} else {
								delete(nf.bind, o)
							}
						}
					}
				}
				return
			}
		}
		// a package-level helper of the module that masks some of its polynomial parameters on every path
		if _, plain := unparen(call.Fun).(*ast.Ident); plain && nf.sp != nil {
			if f := calleeFunc(nf.info, call); f != nil && f.Pkg() != nil && strings.HasPrefix(f.Pkg().Path(), core.ModPath) {
				if pp := f.Pkg().Path(); !strings.HasSuffix(pp, "/ring") && !strings.HasSuffix(pp, "/ring/ringqp") {
					for j := range noisyParamsAt(nf.c, nf.sp, nf.info, nf.fd, call, f, nf.depth) {
						if j < len(call.Args) {
							nf.applySampler(st, nf.cell(call.Args[j], st, 0), skError, "ReadAndAdd", call.Pos())
						}
					}
				}
			}
		}
		return
	}
	name := sel.Sel.Name
	args := call.Args
	cellArg := func(i int) string {
		if i < 0 || i >= len(args) {
			return ""
		}
		return nf.cell(args[i], st, 0)
	}
	// sampler reads
	if name == "Read" || name == "ReadAndAdd" || name == "ReadNew" {
		if t := nf.info.TypeOf(sel.X); t != nil && isSamplerType(t) {
			k := nf.skind(sel.X)
			if name == "ReadNew" {
				return
			}
			c := cellArg(0)
			// ringqp.UniformSampler.Read(ringqp.Poly{Q: c1}) : composite literal argument
			if c == "" && len(args) == 1 {
				if cl, ok := unparen(args[0]).(*ast.CompositeLit); ok {
					for _, el := range cl.Elts {
						if kv, ok := el.(*ast.KeyValueExpr); ok {
							nf.applySampler(st, nf.cell(kv.Value, st, 0), k, name, call.Pos())
						}
					}
					return
				}
			}
			nf.applySampler(st, c, k, name, call.Pos())
			return
		}
	}
	// a helper of the module that masks some of its polynomial parameters on every path
	if f := calleeFunc(nf.info, call); f != nil && f.Pkg() != nil && strings.HasPrefix(f.Pkg().Path(), core.ModPath) && nf.sp != nil {
		if pp := f.Pkg().Path(); !strings.HasSuffix(pp, "/ring") && !strings.HasSuffix(pp, "/ring/ringqp") {
			for j := range noisyParamsAt(nf.c, nf.sp, nf.info, nf.fd, call, f, nf.depth) {
				nf.applySampler(st, cellArg(j), skError, "ReadAndAdd", call.Pos())
			}
		}
	}
	recvT := nf.info.TypeOf(sel.X)
	if recvT == nil {
		return
	}
	rn := namedOf(recvT)
	if rn == nil || rn.Obj().Pkg() == nil {
		return
	}
	rp := rn.Obj().Pkg().Path()
	if !strings.HasSuffix(rp, "/ring") && !strings.HasSuffix(rp, "/ring/ringqp") {
		// Poly.Copy / CopyLvl on a polynomial receiver
		return
	}
	if rn.Obj().Name() == "Poly" {
		// pol.Copy(src), pol.CopyLvl(level, src)
		if name == "Copy" || name == "CopyLvl" {
			dst := nf.cell(sel.X, st, 0)
			src := cellArg(len(args) - 1)
			nf.setN(st, dst, st.isNoisy(src))
			nf.markWritten(st, dst, call.Pos())
		}
		return
	}
	switch {
	case opUnary[name] && len(args) >= 2:
		// a unary transform moves noise along but is not an arithmetic store of its own
		src, dst := cellArg(0), cellArg(len(args)-1)
		nf.setN(st, dst, st.isNoisy(src))
	case opBinaryAdd[name] && len(args) == 3:
		a, b, dst := cellArg(0), cellArg(1), cellArg(2)
		nf.setN(st, dst, st.isNoisy(a) || st.isNoisy(b))
		nf.markWritten(st, dst, call.Pos())
	case opAccum[name] && len(args) >= 2:
		nf.markWritten(st, cellArg(len(args)-1), call.Pos())
	case opProduct[name] && len(args) == 3:
		dst := cellArg(2)
		nf.setN(st, dst, false)
		nf.markWritten(st, dst, call.Pos())
	case name == "ExtendBasisSmallNormAndCenter" && len(args) == 4:
		src := cellArg(0)
		n := st.isNoisy(src)
		nf.setN(st, cellArg(2), n)
		nf.setN(st, cellArg(3), n)
	case (name == "ModDownQPtoQ" || name == "ModDownQPtoQNTT" || name == "ModDownQPtoP") && len(args) == 5:
		src, dst := cellArg(2), cellArg(4)
		nf.setN(st, dst, st.isNoisy(src))
		nf.markWritten(st, dst, call.Pos())
	}
}

// runClosure interprets the body of a closure at one of its call sites, on st.
func (nf *noiseFn) runClosure(lit *ast.FuncLit, call *ast.CallExpr, st *noiseState) {
	saved := map[types.Object]ast.Expr{}
	i := 0
	for _, fl := range lit.Type.Params.List {
		for _, nm := range fl.Names {
			if o := nf.info.Defs[nm]; o != nil && i < len(call.Args) {
				if old, had := nf.bind[o]; had {
					saved[o] = old
				}
				if nf.bind == nil {
					nf.bind = map[types.Object]ast.Expr{}
				}
				nf.bind[o] = call.Args[i]
			}
			i++
		}
	}
	nf.closureDepth++
	savedRets := nf.closureRets
	nf.closureRets = nil
	r := nf.exec(lit.Body.List, st.clone(), nil)
	for _, rs := range nf.closureRets {
		r = joinNoise(r, rs)
	}
	nf.closureRets = savedRets
	if r != nil {
		*st = *r
	}
	nf.closureDepth--
	for _, fl := range lit.Type.Params.List {
		for _, nm := range fl.Names {
			if o := nf.info.Defs[nm]; o != nil {
				if old, had := saved[o]; had {
					nf.bind[o] = old
				} else {
					delete(nf.bind, o)
				}
			}
		}
	}
}

// closureOf returns the function literal a local is bound to, when the local is defined once and never assigned again
// (a return inside the literal ends the interpretation of the closure at its call site).
func (nf *noiseFn) closureOf(id *ast.Ident) *ast.FuncLit {
	o, _ := nf.info.Uses[id].(*types.Var)
	if o == nil || nf.fd == nil || nf.fd.Body == nil {
		return nil
	}
	if nf.closures == nil {
		nf.closures = map[types.Object]*ast.FuncLit{}
		assigned := map[types.Object]int{}
		ast.Inspect(nf.fd.Body, func(x ast.Node) bool {
			switch v := x.(type) {
			case *ast.AssignStmt:
				for i, l := range v.Lhs {
					lid, ok := unparen(l).(*ast.Ident)
					if !ok {
						continue
					}
					lo := nf.info.Defs[lid]
					if lo == nil {
						lo = nf.info.Uses[lid]
					}
					if lo == nil {
						continue
					}
					if _, isFn := lo.Type().Underlying().(*types.Signature); !isFn {
						continue
					}
					assigned[lo]++
					if len(v.Rhs) == len(v.Lhs) {
						if lit, ok := unparen(v.Rhs[i]).(*ast.FuncLit); ok {
							nf.closures[lo] = lit
							if nf.closureAlts == nil {
								nf.closureAlts = map[types.Object][]*ast.FuncLit{}
							}
							nf.closureAlts[lo] = append(nf.closureAlts[lo], lit)
						}
					}
				}
			case *ast.ValueSpec:
				for i, nm := range v.Names {
					if lo := nf.info.Defs[nm]; lo != nil && i < len(v.Values) {
						if lit, ok := unparen(v.Values[i]).(*ast.FuncLit); ok {
							assigned[lo]++
							nf.closures[lo] = lit
						}
					}
				}
			}
			return true
		})
		for lo := range nf.closures {
			// every assignment of the local is a literal: the alternatives are all known
			if assigned[lo] != len(nf.closureAlts[lo]) {
				delete(nf.closures, lo)
				delete(nf.closureAlts, lo)
			}
		}
	}
	return nf.closures[o]
}

func (nf *noiseFn) applySampler(st *noiseState, c string, k samplerKind, name string, pos token.Pos) {
	if c == "" {
		return
	}
	switch k {
	case skError:
		nf.nReads++
		nf.setN(st, c, true)
	default:
		if name == "Read" {
			nf.setN(st, c, false)
			// a uniform mask / a freshly sampled secret is not an arithmetic store: it needs no noise of its own
			_ = pos
		}
	}
}

func isSamplerType(t types.Type) bool {
	t = deref(t)
	if n := namedOf(t); n != nil {
		nm := n.Obj().Name()
		return nm == "Sampler" || strings.HasSuffix(nm, "Sampler")
	}
	return false
}

// exec interprets a statement list; returns the fall-through state (nil if none).
func (nf *noiseFn) exec(list []ast.Stmt, st *noiseState, scopeDecls map[types.Object]bool) *noiseState {
	for _, s := range list {
		if st == nil {
			return nil
		}
		st = nf.execStmt(s, st, scopeDecls)
	}
	return st
}

func (nf *noiseFn) calls(n ast.Node, st *noiseState) {
	for _, c := range callsIn(n) {
		nf.transferCall(c, st)
	}
}

func (nf *noiseFn) execStmt(s ast.Stmt, st *noiseState, scopeDecls map[types.Object]bool) *noiseState {
	if os.Getenv("LV_DEBUG_NOISE") != "" && strings.Contains(nf.fkey, os.Getenv("LV_DEBUG_NOISE")) {
		fmt.Fprintf(os.Stderr, "%s: %T noisy=%v\n", nf.c.Rel(s.Pos()), s, st.noisy)
	}
	switch x := s.(type) {
	case *ast.AssignStmt:
		nf.calls(x, st)
		for i, l := range x.Lhs {
			id, ok := unparen(l).(*ast.Ident)
			if !ok {
				continue
			}
			o := nf.info.Defs[id]
			if o == nil {
				o = nf.info.Uses[id]
			}
			if o == nil || !polyish(o.Type()) {
				continue
			}
			if x.Tok == token.DEFINE && scopeDecls != nil {
				scopeDecls[o] = true
			}
			if nf.multi[o] && len(x.Rhs) == len(x.Lhs) {
				st.alias[o] = nf.cell(x.Rhs[i], st, 0)
			}
		}
		return st
	case *ast.ExprStmt:
		nf.calls(x, st)
		return st
	case *ast.DeclStmt, *ast.IncDecStmt, *ast.EmptyStmt:
		return st
	case *ast.ReturnStmt:
		nf.calls(x, st)
		if nf.closureDepth > 0 {
			// the end of a closure being interpreted at its call site, not of the function
			nf.closureRets = append(nf.closureRets, st)
			return nil
		}
		nf.checkScope(st, nil, x.Pos(), "return", x)
		return nil
	case *ast.BlockStmt:
		return nf.execBlock(x.List, st, x.End(), "block end")
	case *ast.IfStmt:
		if x.Init != nil {
			st = nf.execStmt(x.Init, st, scopeDecls)
			if st == nil {
				return nil
			}
		}
		nf.calls(x.Cond, st)
		a := nf.execBlock(x.Body.List, st.clone(), x.Body.End(), "block end")
		var b *noiseState
		if x.Else != nil {
			b = nf.execStmt(x.Else, st.clone(), nil)
		} else {
			b = st
		}
		return joinNoise(a, b)
	case *ast.ForStmt:
		lv := map[string]bool{}
		if x.Init != nil {
			st = nf.execStmt(x.Init, st, nil)
			if as, ok := x.Init.(*ast.AssignStmt); ok {
				for _, l := range as.Lhs {
					if id, ok := l.(*ast.Ident); ok {
						lv[id.Name] = true
					}
				}
			}
		}
		nf.loopVars = append(nf.loopVars, lv)
		body := nf.execBlock(x.Body.List, st.clone(), x.Body.End(), "loop body end")
		nf.loopVars = nf.loopVars[:len(nf.loopVars)-1]
		return joinNoise(st, body)
	case *ast.RangeStmt:
		// a loop over a literal list of polynomials (`for _, c := range [2]ring.Poly{c0, c1}`) is its body once per
		// element, the value variable standing for the element
		if cl, ok := unparen(x.X).(*ast.CompositeLit); ok && len(cl.Elts) > 0 && len(cl.Elts) <= 8 {
			if vid, ok := x.Value.(*ast.Ident); ok && vid.Name != "_" {
				if vo := nf.info.Defs[vid]; vo != nil && polyish(vo.Type()) {
					if nf.bind == nil {
						nf.bind = map[types.Object]ast.Expr{}
					}
					for _, el := range cl.Elts {
						if kv, ok := el.(*ast.KeyValueExpr); ok {
							el = kv.Value
						}
						nf.bind[vo] = el
						r := nf.execBlock(x.Body.List, st, x.Body.End(), "block end")
						if r != nil {
							st = r
						}
					}
					delete(nf.bind, vo)
					return st
				}
			}
		}
		lv := map[string]bool{}
		for _, e := range []ast.Expr{x.Key, x.Value} {
			if id, ok := e.(*ast.Ident); ok && id.Name != "_" {
				lv[id.Name] = true
			}
		}
		nf.loopVars = append(nf.loopVars, lv)
		body := nf.execBlock(x.Body.List, st.clone(), x.Body.End(), "loop body end")
		nf.loopVars = nf.loopVars[:len(nf.loopVars)-1]
		return joinNoise(st, body)
	case *ast.SwitchStmt:
		if x.Init != nil {
			st = nf.execStmt(x.Init, st, nil)
		}
		return nf.execClauses(x.Body.List, st, false)
	case *ast.TypeSwitchStmt:
		return nf.execClauses(x.Body.List, st, false)
	case *ast.BranchStmt:
		// break/continue: approximated as falling to the end of the enclosing construct
		return st
	case *ast.LabeledStmt:
		return nf.execStmt(x.Stmt, st, scopeDecls)
	}
	return st
}

func (nf *noiseFn) execClauses(clauses []ast.Stmt, st *noiseState, _ bool) *noiseState {
	var res *noiseState
	hasDefault := false
	for _, cl := range clauses {
		cc, ok := cl.(*ast.CaseClause)
		if !ok {
			continue
		}
		if cc.List == nil {
			hasDefault = true
		}
		r := nf.execBlock(cc.Body, st.clone(), cc.End(), "case end")
		res = joinNoise(res, r)
	}
	if !hasDefault {
		res = joinNoise(res, st)
	}
	return res
}

func (nf *noiseFn) execBlock(list []ast.Stmt, st *noiseState, end token.Pos, what string) *noiseState {
	decls := map[types.Object]bool{}
	r := nf.exec(list, st, decls)
	if r != nil && what == "loop body end" {
		nf.checkScope(r, decls, end, what, nil)
	}
	return r
}

var reIndexIdent = regexp.MustCompile(`[A-Za-z_][A-Za-z0-9_]*`)

// indexedByLoopVar reports whether some bracketed index of the cell mentions a variable of an enclosing loop.
func (nf *noiseFn) indexedByLoopVar(c string) bool {
	depth := 0
	start := 0
	for i, r := range c {
		switch r {
		case '[':
			if depth == 0 {
				start = i + 1
			}
			depth++
		case ']':
			depth--
			if depth == 0 {
				for _, id := range reIndexIdent.FindAllString(c[start:i], -1) {
					for _, lv := range nf.loopVars {
						if lv[id] {
							return true
						}
					}
				}
			}
		}
	}
	return false
}

// checkScope: at a scope exit, every written cell that is a view declared in this scope (decls != nil) or, at a
// return (decls == nil), every written cell rooted at a parameter, must be noisy.
func (nf *noiseFn) checkScope(st *noiseState, decls map[types.Object]bool, at token.Pos, what string, ret *ast.ReturnStmt) {
	if ret != nil {
		obj := nf.info.Defs[nf.fd.Name].(*types.Func)
		_, errRes := lastResultIsError(obj.Type().(*types.Signature))
		if returnIsFailing(nf.info, parentMapCached(nf.fd), ret, errRes) {
			return
		}
	}
	var cells []string
	for c := range st.written {
		cells = append(cells, c)
	}
	sort.Strings(cells)
	for _, c := range cells {
		root := c
		if i := strings.IndexAny(root, ".["); i >= 0 {
			root = root[:i]
		}
		if !nf.isParamRoot(root) {
			continue
		}
		if decls == nil {
			// function-level exit: cells indexed by loop variables were judged at the end of their loop body
			if nf.scoped[c] {
				continue
			}
		} else {
			// loop body end: only the cells indexed by a variable of an enclosing loop
			if !nf.indexedByLoopVar(c) {
				continue
			}
			nf.scoped[c] = true
		}
		key := fmt.Sprintf("NOISE:%s#%s", nf.fkey, c)
		if st.isNoisy(c) {
			if !nf.checked[key] {
				nf.checked[key] = true
				*nf.out = append(*nf.out, okOb("NOISE", key, nf.c.Rel(st.written[c]), "stored component carries error-sampler output on every path to "+what, true))
			}
			continue
		}
		if nf.checked[key+"!"] {
			continue
		}
		nf.checked[key+"!"] = true
		o := violOb("NOISE", key, nf.c.Rel(st.written[c]), fmt.Sprintf("%s stores arithmetic results into %s (first at %s) but on a path reaching the %s at %s no output of the error sampler flows into it: the emitted ciphertext / key / share component has missing or degenerate masking on that path", nf.fkey, c, nf.c.Rel(st.written[c]), what, nf.c.Rel(at)))
		o.Path = []string{"entry " + nf.c.Rel(nf.fd.Pos()), "store " + nf.c.Rel(st.written[c]), "exit " + nf.c.Rel(at)}
		*nf.out = append(*nf.out, o)
	}
}

var pmCache = map[*ast.FuncDecl]map[ast.Node]ast.Node{}

func parentMapCached(fd *ast.FuncDecl) map[ast.Node]ast.Node {
	if m, ok := pmCache[fd]; ok {
		return m
	}
	m := parentMap(fd)
	pmCache[fd] = m
	return m
}

func (nf *noiseFn) isParamRoot(root string) bool {
	for _, f := range nf.fd.Type.Params.List {
		for _, nm := range f.Names {
			if nm.Name == root {
				o := nf.info.Defs[nm]
				return o != nil && polyish(o.Type()) || isInterfaceParam(o)
			}
		}
	}
	return false
}

func isInterfaceParam(o types.Object) bool {
	if o == nil {
		return false
	}
	_, ok := o.Type().Underlying().(*types.Interface)
	return ok
}

// cellUsesScopeVar: the cell was named through a variable declared in the scope (loop-local view) — we detect it by
// the cell containing an index expression, which is how loop-local views of matrices resolve.
func (nf *noiseFn) cellUsesScopeVar(c string, decls map[types.Object]bool) bool {
	for o := range decls {
		if d, ok := nf.static[o]; ok {
			st := &noiseState{map[string]bool{}, map[types.Object]string{}, map[string]token.Pos{}}
			dc := nf.cell(d, st, 0)
			if dc != "" && cellPrefix(dc, c) {
				return true
			}
		}
	}
	return false
}

// ---------------------------------------------------------------- sampler provenance

type samplerProv struct {
	p     *core.Program
	field map[*types.Var]samplerKind
	// assumeErr: sampler-typed parameters of the helper being summarised, taken to be error samplers; the summary
	// then only holds at call sites that pass an error sampler there (noisyParamsCond)
	assumeErr map[types.Object]bool
}

func distKind(info *types.Info, e ast.Expr) samplerKind {
	s := exprString(e)
	low := strings.ToLower(s)
	switch {
	case strings.Contains(s, "Xe()") || strings.Contains(low, "noise") || strings.Contains(s, "DiscreteGaussian") || strings.Contains(s, "DefaultXe"):
		return skError
	case strings.Contains(s, "Xs()") || strings.Contains(s, "Ternary") || strings.Contains(s, "DefaultXs"):
		return skSecret
	}
	return skUnknown
}

func ctorKind(info *types.Info, call *ast.CallExpr) samplerKind {
	f := calleeFunc(info, call)
	if f == nil {
		return skUnknown
	}
	switch f.Name() {
	case "NewSampler":
		if len(call.Args) >= 3 {
			return distKind(info, call.Args[2])
		}
	case "NewGaussianSampler":
		return skError
	case "NewTernarySampler":
		return skSecret
	case "NewUniformSampler":
		return skUniform
	}
	return helperSamplerKind(info, call, f, 0)
}

// noiseProg is the program whose helper functions ctorKind may look into (set by newSamplerProv).
var noiseProg *core.Program

// helperSamplerKind classifies a call of a module helper that returns the sampler one of the constructors above builds
// (`newNoiseSampler(params, noise)`): by the argument the call site passes for the helper's distribution parameter, or
// by the constructor the helper calls when that does not depend on a parameter.
func helperSamplerKind(info *types.Info, call *ast.CallExpr, f *types.Func, depth int) samplerKind {
	if noiseProg == nil || f.Pkg() == nil || depth > 2 {
		return skUnknown
	}
	sig, _ := f.Type().(*types.Signature)
	if sig == nil || sig.Results().Len() == 0 || !strings.Contains(sig.Results().At(0).Type().String(), "ampler") {
		return skUnknown
	}
	pk := noiseProg.ByPath[f.Pkg().Path()]
	if pk == nil {
		return skUnknown
	}
	var fd *ast.FuncDecl
	for _, file := range pk.Syntax {
		for _, d := range file.Decls {
			if x, ok := d.(*ast.FuncDecl); ok && x.Body != nil && x.Recv == nil {
				if o, _ := pk.TypesInfo.Defs[x.Name].(*types.Func); o != nil && funcOrigin(o) == funcOrigin(f) {
					fd = x
				}
			}
		}
	}
	if fd == nil {
		return skUnknown
	}
	res := skUnknown
	ast.Inspect(fd.Body, func(n ast.Node) bool {
		inner, ok := n.(*ast.CallExpr)
		if !ok || res != skUnknown {
			return true
		}
		g := calleeFunc(pk.TypesInfo, inner)
		if g == nil {
			return true
		}
		if g.Name() == "NewSampler" && len(inner.Args) >= 3 {
			if o := identObj(pk.TypesInfo, inner.Args[2]); o != nil {
				for i := 0; i < sig.Params().Len(); i++ {
					if sig.Params().At(i) == o && i < len(call.Args) {
						res = distKind(info, call.Args[i])
						return false
					}
				}
			}
		}
		switch g.Name() {
		case "NewSampler", "NewGaussianSampler", "NewTernarySampler", "NewUniformSampler":
			res = ctorKind(pk.TypesInfo, inner)
		}
		return true
	})
	return res
}

func newSamplerProv(p *core.Program) *samplerProv {
	noiseProg = p
	sp := &samplerProv{p: p, field: map[*types.Var]samplerKind{}}
	set := func(v *types.Var, k samplerKind) {
		if v == nil || k == skUnknown {
			return
		}
		v = v.Origin()
		if old, ok := sp.field[v]; ok && old != k {
			sp.field[v] = skUnknown
			return
		}
		sp.field[v] = k
	}
	p.FuncDecls(func(pk *packages.Package, file *ast.File, fd *ast.FuncDecl) {
		info := pk.TypesInfo
		// local sampler variables built by constructors
		localKind := map[types.Object]samplerKind{}
		ast.Inspect(fd.Body, func(n ast.Node) bool {
			as, ok := n.(*ast.AssignStmt)
			if !ok || len(as.Rhs) != 1 {
				return true
			}
			call, ok := unparen(as.Rhs[0]).(*ast.CallExpr)
			if !ok {
				return true
			}
			k := ctorKind(info, call)
			if k == skUnknown {
				return true
			}
			l := unparen(as.Lhs[0])
			if id, ok := l.(*ast.Ident); ok {
				if o := identObj(info, id); o != nil {
					localKind[o] = k
				}
			}
			if s, ok := l.(*ast.SelectorExpr); ok {
				if sel := info.Selections[s]; sel != nil && sel.Kind() == types.FieldVal {
					set(sel.Obj().(*types.Var), k)
				}
			}
			return true
		})
		kindOf := func(e ast.Expr) samplerKind {
			e = unparen(e)
			if call, ok := e.(*ast.CallExpr); ok {
				return ctorKind(info, call)
			}
			if o := identObj(info, e); o != nil {
				return localKind[o]
			}
			return skUnknown
		}
		ast.Inspect(fd.Body, func(n ast.Node) bool {
			switch x := n.(type) {
			case *ast.AssignStmt:
				if len(x.Lhs) == len(x.Rhs) {
					for i, l := range x.Lhs {
						if s, ok := unparen(l).(*ast.SelectorExpr); ok {
							if sel := info.Selections[s]; sel != nil && sel.Kind() == types.FieldVal {
								set(sel.Obj().(*types.Var), kindOf(x.Rhs[i]))
							}
						}
					}
				}
			case *ast.CompositeLit:
				st := structOf(info.TypeOf(x))
				if st == nil {
					return true
				}
				for i, el := range x.Elts {
					if kv, ok := el.(*ast.KeyValueExpr); ok {
						if k, ok := kv.Key.(*ast.Ident); ok {
							for j := 0; j < st.NumFields(); j++ {
								if st.Field(j).Name() == k.Name {
									set(st.Field(j), kindOf(kv.Value))
								}
							}
						}
					} else if i < st.NumFields() {
						set(st.Field(i), kindOf(el))
					}
				}
			}
			return true
		})
	})
	return sp
}

// kindOfExpr classifies a sampler expression inside fd: strips AtLevel(...) calls and type assertions, follows locals.
func (sp *samplerProv) kindOfExpr(info *types.Info, fd *ast.FuncDecl, e ast.Expr, depth int) samplerKind {
	if depth > 6 {
		return skUnknown
	}
	e = unparen(e)
	switch x := e.(type) {
	case *ast.CallExpr:
		if k := ctorKind(info, x); k != skUnknown {
			return k
		}
		if sel, ok := unparen(x.Fun).(*ast.SelectorExpr); ok && (sel.Sel.Name == "AtLevel" || sel.Sel.Name == "WithPRNG") {
			return sp.kindOfExpr(info, fd, sel.X, depth+1)
		}
	case *ast.TypeAssertExpr:
		return sp.kindOfExpr(info, fd, x.X, depth+1)
	case *ast.SelectorExpr:
		if sel := info.Selections[x]; sel != nil && sel.Kind() == types.FieldVal {
			if k, ok := sp.field[sel.Obj().(*types.Var).Origin()]; ok {
				return k
			}
		}
	case *ast.Ident:
		o := identObj(info, x)
		if o == nil {
			return skUnknown
		}
		if sp.assumeErr[o] {
			return skError
		}
		if d := singleDef(info, fd, o); d != nil {
			return sp.kindOfExpr(info, fd, d, depth+1)
		}
	}
	return skUnknown
}

// emitters that must read from an error sampler (frozen from the reference tree; one line of reason each).
// prepNoiseFn builds the interpreter state of one function (alias classification of its polynomial locals).
func prepNoiseFn(c *core.Ctx, sp *samplerProv, pk *packages.Package, fd *ast.FuncDecl, out *[]ob) *noiseFn {
	info := pk.TypesInfo
	fkey := core.FuncKey(pk, fd)
	nf := &noiseFn{c: c, pk: pk, info: info, fd: fd, fkey: fkey, sp: sp, static: map[types.Object]ast.Expr{}, multi: map[types.Object]bool{}, out: out, checked: map[string]bool{}, scoped: map[string]bool{}}
	nf.skind = func(e ast.Expr) samplerKind { return sp.kindOfExpr(info, fd, e, 0) }
	// alias classification of polynomial locals
	defs := map[types.Object][]ast.Expr{}
	ast.Inspect(fd.Body, func(n ast.Node) bool {
		switch x := n.(type) {
		case *ast.AssignStmt:
			if len(x.Lhs) == len(x.Rhs) {
				for i, l := range x.Lhs {
					if id, ok := unparen(l).(*ast.Ident); ok {
						o := info.Defs[id]
						if o == nil {
							o = info.Uses[id]
						}
						if o != nil && polyish(o.Type()) {
							defs[o] = append(defs[o], x.Rhs[i])
						}
					}
				}
			}
		case *ast.ValueSpec:
			for _, nm := range x.Names {
				if o := info.Defs[nm]; o != nil && polyish(o.Type()) && len(x.Values) == 0 {
					defs[o] = append(defs[o], nil)
				}
			}
		}
		return true
	})
	for o, ds := range defs {
		if len(ds) == 1 && ds[0] != nil {
			// only alias-like right-hand sides (no calls other than El())
			if _, isCall := unparen(ds[0]).(*ast.CallExpr); !isCall {
				nf.static[o] = ds[0]
				continue
			}
		}
		nf.multi[o] = true
	}
	nf.expand = map[string][]aliasTarget{}
	empty := &noiseState{map[string]bool{}, map[types.Object]string{}, map[string]token.Pos{}}
	for o, ds := range defs {
		if !nf.multi[o] {
			continue
		}
		for _, d := range ds {
			if d == nil {
				continue
			}
			if cl, ok := unparen(d).(*ast.CompositeLit); ok {
				for _, el := range cl.Elts {
					if kv, ok := el.(*ast.KeyValueExpr); ok {
						if k, ok := kv.Key.(*ast.Ident); ok {
							if t := nf.cell(kv.Value, empty, 0); t != "" {
								nf.expand[o.Name()] = append(nf.expand[o.Name()], aliasTarget{"." + k.Name, t})
							}
						}
					}
				}
				continue
			}
			if t := nf.cell(d, empty, 0); t != "" && !strings.HasPrefix(t, "var:") {
				nf.expand[o.Name()] = append(nf.expand[o.Name()], aliasTarget{"", t})
			}
		}
	}
	return nf
}

// noisyParams: the polynomial parameters of a helper that are masked by an error-sampler draw on every path to its
// return (so that a block of an emitter extracted into a helper still counts). Memoised; recursion-guarded.
var noisyParamsMemo = map[*types.Func]map[int]bool{}

// noisyParamsCond: the sampler-typed parameters of a summarised helper; its summary holds for a call only if the
// arguments passed there are error samplers.
var noisyParamsCond = map[*types.Func][]int{}

// noisyParamsAt returns the summary of f for one call: empty unless every sampler argument is an error sampler.
func noisyParamsAt(c *core.Ctx, sp *samplerProv, info *types.Info, fd *ast.FuncDecl, call *ast.CallExpr, f *types.Func, depth int) map[int]bool {
	res := noisyParams(c, sp, f, depth)
	if len(res) == 0 {
		return res
	}
	for _, i := range noisyParamsCond[funcOrigin(f)] {
		if i >= len(call.Args) || sp.kindOfExpr(info, fd, call.Args[i], 0) != skError {
			return nil
		}
	}
	return res
}

func noisyParams(c *core.Ctx, sp *samplerProv, f *types.Func, depth int) map[int]bool {
	f = funcOrigin(f)
	if m, ok := noisyParamsMemo[f]; ok {
		return m
	}
	noisyParamsMemo[f] = map[int]bool{}
	if depth > 3 || f.Pkg() == nil || !strings.HasPrefix(f.Pkg().Path(), core.ModPath) {
		return nil
	}
	var pk *packages.Package
	var fd *ast.FuncDecl
	for _, p := range c.Pkgs {
		if p.Types != f.Pkg() {
			continue
		}
		for _, file := range p.Syntax {
			for _, d := range file.Decls {
				if x, ok := d.(*ast.FuncDecl); ok && x.Body != nil && p.TypesInfo.Defs[x.Name] == types.Object(f) {
					pk, fd = p, x
				}
			}
		}
	}
	if fd == nil {
		return nil
	}
	var sink []ob
	// sampler-typed parameters are taken to be error samplers: the summary is conditional on what the call site passes
	sigH := f.Type().(*types.Signature)
	var cond []int
	savedAssume := sp.assumeErr
	sp.assumeErr = map[types.Object]bool{}
	for k, v := range savedAssume {
		sp.assumeErr[k] = v
	}
	for i := 0; i < sigH.Params().Len(); i++ {
		if isSamplerType(sigH.Params().At(i).Type()) {
			sp.assumeErr[sigH.Params().At(i)] = true
			cond = append(cond, i)
		}
	}
	defer func() { sp.assumeErr = savedAssume }()
	noisyParamsCond[f] = cond
	nf := prepNoiseFn(c, sp, pk, fd, &sink)
	nf.depth = depth + 1
	st := &noiseState{map[string]bool{}, map[types.Object]string{}, map[string]token.Pos{}}
	end := nf.exec(fd.Body.List, st, map[types.Object]bool{})
	res := map[int]bool{}
	if end != nil && nf.nReads > 0 {
		sig := f.Type().(*types.Signature)
		for i := 0; i < sig.Params().Len(); i++ {
			p := sig.Params().At(i)
			// a QP polynomial passed by value is masked when its Q half is (the error is drawn in Q and extended to P)
			if polyish(p.Type()) && (end.isNoisy(p.Name()) || end.isNoisy(p.Name()+".Q")) {
				res[i] = true
			}
		}
	}
	if os.Getenv("LV_DEBUG_NOISE") != "" {
		fmt.Fprintf(os.Stderr, "noisyParams %s: res=%v cond=%v nReads=%d end=%v\n", f.Name(), res, cond, nf.nReads, end != nil)
		if end != nil {
			fmt.Fprintf(os.Stderr, "  noisy=%v\n", end.noisy)
		}
	}
	noisyParamsMemo[f] = res
	return res
}

var mustEmit = map[string]string{
	"core/rlwe.(Encryptor).encryptZeroPk":                         "public-key encryption: both components carry an error",
	"core/rlwe.(Encryptor).encryptZeroPkNoP":                      "public-key encryption without P",
	"core/rlwe.(Encryptor).encryptZeroSkFromC1":                   "secret-key encryption in Q",
	"core/rlwe.(Encryptor).encryptZeroSkFromC1QP":                 "secret-key encryption in QP (evaluation keys)",
	"multiparty.(PublicKeyGenProtocol).GenShare":                  "collective public key share",
	"multiparty.(EvaluationKeyGenProtocol).GenShare":              "collective evaluation key share",
	"multiparty.(RelinearizationKeyGenProtocol).GenShareRoundOne": "relinearisation key round 1",
	"multiparty.(RelinearizationKeyGenProtocol).GenShareRoundTwo": "relinearisation key round 2",
	"multiparty.(KeySwitchProtocol).GenShare":                     "collective key-switch share (smudging)",
}

func scanNoise(c *core.Ctx) []ob {
	var out []ob
	sp := newSamplerProv(c.Program)
	nFn := 0
	seen := map[string]bool{}
	c.FuncDecls(func(pk *packages.Package, file *ast.File, fd *ast.FuncDecl) {
		rel := core.ShortPkg(pk.PkgPath)
		if !c.IsFixture && !(strings.HasPrefix(rel, "core/rlwe") || strings.HasPrefix(rel, "core/rgsw") || strings.HasPrefix(rel, "multiparty")) {
			return
		}
		if fileIsTestSupport(c.Program, fd.Pos()) {
			return
		}
		info := pk.TypesInfo
		fkey := core.FuncKey(pk, fd)
		// does it read from an error sampler?
		reads := false
		ast.Inspect(fd.Body, func(n ast.Node) bool {
			call, ok := n.(*ast.CallExpr)
			if !ok {
				return true
			}
			sel, ok := unparen(call.Fun).(*ast.SelectorExpr)
			if !ok || (sel.Sel.Name != "Read" && sel.Sel.Name != "ReadAndAdd") {
				return true
			}
			if t := info.TypeOf(sel.X); t != nil && isSamplerType(t) && sp.kindOfExpr(info, fd, sel.X, 0) == skError {
				reads = true
			}
			return true
		})
		// ... or hands a polynomial to a helper that does
		if !reads {
			ast.Inspect(fd.Body, func(n ast.Node) bool {
				if call, ok := n.(*ast.CallExpr); ok && !reads {
					if f := calleeFunc(info, call); f != nil && f.Pkg() == pk.Types && len(noisyParamsAt(c, sp, info, fd, call, f, 0)) > 0 {
						reads = true
					}
				}
				return !reads
			})
		}
		_, must := mustEmit[fkey]
		if must {
			seen[fkey] = true
		}
		if !reads {
			if must {
				out = append(out, violOb("NOISE", "NOISE:"+fkey+"#emitter", c.Rel(fd.Pos()), fmt.Sprintf("%s (%s) no longer reads from an error sampler at all", fkey, mustEmit[fkey])))
			}
			return
		}
		nFn++
		nf := prepNoiseFn(c, sp, pk, fd, &out)
		st := &noiseState{map[string]bool{}, map[types.Object]string{}, map[string]token.Pos{}}
		end := nf.exec(fd.Body.List, st, map[types.Object]bool{})
		if end != nil {
			nf.checkScope(end, nil, fd.Body.Rbrace, "end of function", nil)
		}
		if len(nf.checked) == 0 {
			out = append(out, infoOb("NOISE", "NOISE:"+fkey, c.Rel(fd.Pos()), "reads an error sampler but stores no arithmetic result into a parameter-rooted polynomial"))
		}
	})
	if !c.IsFixture {
		for k := range mustEmit {
			if !seen[k] {
				out = append(out, infoOb("NOISE", "NOISE:"+k+"#emitter", "", "emitter of the reference tree not found under this name (renamed or removed)"))
			}
		}
	}
	c.Stats["noise_emitters"] = nFn
	return out
}

func init() {
	core.Register(&core.Rule{Name: "NOISE", Props: []string{"C03", "C04", "C14", "C16", "C20"},
		Doc: "in every function of rlwe/rgsw/multiparty that reads an error sampler (provenance traced to NewSampler(.., Xe()|noise, ..)), every parameter-rooted polynomial that receives an arithmetic result carries error-sampler output on every path to the end of its scope (structured must-analysis with per-operation transfer functions)",
		Run: func(c *core.Ctx) []ob {
			out := scanNoise(c)
			for i := range out {
				out[i].Props = noiseProps(out[i].Key)
			}
			all := []string{"C03", "C04", "C14", "C16", "C20"}
			for _, o := range core.Floor("NOISE", nil, "emitters", c.Stats["noise_emitters"], 8) {
				out = append(out, withProps(o, all...))
			}
			for _, o := range control(c, "NOISE", scanNoise, "emit#out.Value[0]") {
				out = append(out, withProps(o, all...))
			}
			return out
		}})
}

// noiseProps assigns an emitter to the properties whose behaviour rests on it.
func noiseProps(key string) []string {
	switch {
	case strings.Contains(key, "core/rlwe.(Encryptor)"):
		return []string{"C03", "C04", "C20"} // fresh ciphertexts, evaluation-key rows, RGSW rows
	case strings.Contains(key, "core/rgsw"):
		return []string{"C20"}
	case strings.Contains(key, "KeySwitch") || strings.Contains(key, "multiparty/mp"):
		return []string{"C16"}
	case strings.Contains(key, "multiparty"):
		return []string{"C14"}
	}
	return []string{"C03"}
}
