package rules

import (
	"fmt"
	"go/ast"
	"go/token"
	"go/types"
	"strings"

	"golang.org/x/tools/go/packages"

	"lvcheck/internal/core"
)

// SWAPMIX — after operands have been swapped to dodge output aliasing, an expression does not pair an original
// operand with a swapped one.
//
// The tensoring routines avoid overwriting an input that is also the receiver with
//
//	if op1 == opOut { tmp0, tmp1 = op1, op0 } else { tmp0, tmp1 = op0, op1 }
//
// From there on (tmp0, tmp1) is the operand pair, in an order that depends on the aliasing. An expression that
// combines one original with one swapped name — `f(op0.Scale, tmp1.Scale)` — is the pair (op0, op0) on the swapped
// path: the other operand is lost exactly when the receiver aliases the second operand.
//
// Rule: for every such two-armed swap, no later call or binary expression of the function has, among its direct
// operands, exactly one expression rooted at a swapped name and exactly one rooted at an original operand, and nothing
// rooted at the other swapped name or the other original.

func scanSwapMix(c *core.Ctx) []ob {
	var out []ob
	n := 0
	c.FuncDecls(func(pk *packages.Package, file *ast.File, fd *ast.FuncDecl) {
		if fd.Body == nil || fileIsTestSupport(c.Program, fd.Pos()) || inExamples(pk) {
			return
		}
		info := pk.TypesInfo
		fkey := core.FuncKey(pk, fd)
		root := func(e ast.Expr) types.Object {
			for {
				switch x := unparen(e).(type) {
				case *ast.Ident:
					if o := info.Uses[x]; o != nil {
						return o
					}
					return info.Defs[x]
				case *ast.SelectorExpr:
					e = x.X
				case *ast.IndexExpr:
					e = x.X
				case *ast.SliceExpr:
					e = x.X
				case *ast.StarExpr:
					e = x.X
				case *ast.UnaryExpr:
					e = x.X
				case *ast.CallExpr:
					// method value on an element: op.El(), op.Scale.Mul(..) is not a plain view — only El()
					if s, ok := unparen(x.Fun).(*ast.SelectorExpr); ok && len(x.Args) == 0 && s.Sel.Name == "El" {
						e = s.X
						continue
					}
					return nil
				default:
					return nil
				}
			}
		}
		pairOf := func(b *ast.BlockStmt) (lhs [2]types.Object, rhs [2]types.Object, ok bool) {
			if len(b.List) != 1 {
				return
			}
			as, isAs := b.List[0].(*ast.AssignStmt)
			if !isAs || len(as.Lhs) != 2 || len(as.Rhs) != 2 {
				return
			}
			for i := 0; i < 2; i++ {
				lhs[i] = root(as.Lhs[i])
				rhs[i] = root(as.Rhs[i])
				if lhs[i] == nil || rhs[i] == nil {
					return
				}
			}
			ok = true
			return
		}
		ast.Inspect(fd.Body, func(x ast.Node) bool {
			is, ok := x.(*ast.IfStmt)
			if !ok {
				return true
			}
			eb, ok := is.Else.(*ast.BlockStmt)
			if !ok {
				return true
			}
			l1, r1, ok1 := pairOf(is.Body)
			l2, r2, ok2 := pairOf(eb)
			if !ok1 || !ok2 || l1 != l2 || r1[0] != r2[1] || r1[1] != r2[0] || r1[0] == r1[1] || l1[0] == l1[1] {
				return true
			}
			n++
			swapped := map[types.Object]bool{l1[0]: true, l1[1]: true}
			orig := map[types.Object]bool{r1[0]: true, r1[1]: true}
			key := fmt.Sprintf("SWAPMIX:%s#%s,%s", fkey, l1[0].Name(), l1[1].Name())
			var bad ast.Node
			var badText string
			check := func(at ast.Node, operands []ast.Expr) {
				if bad != nil || at.Pos() < is.End() {
					return
				}
				s, o := map[types.Object]bool{}, map[types.Object]bool{}
				for _, a := range operands {
					// an operand is attributed to the object its storage/metadata is read from
					ast.Inspect(a, func(y ast.Node) bool {
						if _, isCall := y.(*ast.CallExpr); isCall && y != ast.Node(a) {
							// nested calls are checked on their own
							if ce := y.(*ast.CallExpr); !(len(ce.Args) == 0) {
								return false
							}
						}
						if id, ok := y.(*ast.Ident); ok {
							ob := info.Uses[id]
							if swapped[ob] {
								s[ob] = true
							}
							if orig[ob] {
								o[ob] = true
							}
						}
						return true
					})
				}
				if len(s) == 1 && len(o) == 1 {
					bad = at
					if e, ok := at.(ast.Expr); ok {
						badText = exprString(e)
					}
				}
			}
			ast.Inspect(fd.Body, func(y ast.Node) bool {
				switch v := y.(type) {
				case *ast.CallExpr:
					ops := append([]ast.Expr{}, v.Args...)
					if se, ok := unparen(v.Fun).(*ast.SelectorExpr); ok {
						if _, isSel := info.Selections[se]; isSel {
							ops = append(ops, se.X)
						}
					}
					check(v, ops)
				case *ast.BinaryExpr:
					if v.Op != token.EQL && v.Op != token.NEQ && v.Op != token.LAND && v.Op != token.LOR {
						check(v, []ast.Expr{v.X, v.Y})
					}
				}
				return true
			})
			props := []string{"C09"}
			switch {
			case strings.HasPrefix(fkey, "schemes/bgv"):
				props = []string{"C05", "C09"}
			case strings.HasPrefix(fkey, "schemes/ckks"):
				props = []string{"C06", "C09"}
			}
			if bad != nil {
				out = append(out, withProps(violOb("SWAPMIX", key, c.Rel(bad.Pos()), fmt.Sprintf("%s swaps (%s, %s) into (%s, %s) when the receiver is the second operand, yet %s combines an original operand with a swapped name: on the swapped path both denote the same operand and the other one is lost", fkey, r1[1].Name(), r1[0].Name(), l1[0].Name(), l1[1].Name(), badText)), props...))
			} else {
				out = append(out, withProps(okOb("SWAPMIX", key, c.Rel(is.Pos()), "no later expression pairs an original operand with a swapped name", true), props...))
			}
			return true
		})
	})
	c.Stats["swapmix_sites"] = n
	return out
}

func init() {
	core.Register(&core.Rule{Name: "SWAPMIX", Props: []string{"C05", "C06", "C09"},
		Doc: "after a two-armed swap of the operand pair against output aliasing (`if op1 == opOut {a, b = op1, op0} else {a, b = op0, op1}`), no call or arithmetic expression combines exactly one original operand with exactly one swapped name",
		Run: func(c *core.Ctx) []ob {
			out := scanSwapMix(c)
			out = append(out, control(c, "SWAPMIX", scanSwapMix, "(fixEvaluator).MulSwap")...)
			out = append(out, core.Floor("SWAPMIX", nil, "operand swaps", c.Stats["swapmix_sites"], 3)...)
			return out
		}})
}

var _ = packages.NeedName

// WORKALIAS — once a working version of an operand has been chosen, the operand's own data is not read any more.
//
// The scale-matching routines set `tmp0` to the operand `c0` on some paths and to a rescaled copy of it in a scratch
// buffer on others; from there on `tmp0` is the operand. `opOut.Value[i].CopyLvl(level, c0.Value[i])` after that
// point copies the *unscaled* components on exactly the paths where a rescaled copy had to be made.
//
// Rule: when a local T of an element type is assigned at least twice in a function, at least once to an operand
// parameter P itself (or to a literal view `&Ciphertext{Element: *P}`) and at least once to something else, then after
// the last of these assignments (source order) no expression reads the components of P (`P.Value[…]`, `P.El().Value[…]`).
// Metadata of P (Degree, Level, Scale) may still be read.
func scanWorkAlias(c *core.Ctx) []ob {
	var out []ob
	n := 0
	c.FuncDecls(func(pk *packages.Package, file *ast.File, fd *ast.FuncDecl) {
		if fd.Body == nil || fileIsTestSupport(c.Program, fd.Pos()) || inExamples(pk) {
			return
		}
		info := pk.TypesInfo
		fn, _ := info.Defs[fd.Name].(*types.Func)
		if fn == nil {
			return
		}
		sig := fn.Type().(*types.Signature)
		params := map[types.Object]bool{}
		for i := 0; i < sig.Params().Len(); i++ {
			p := sig.Params().At(i)
			if isMetaCarrier(p.Type()) && !isOutParamName(p.Name()) {
				params[p] = true
			}
		}
		if len(params) == 0 {
			return
		}
		fkey := core.FuncKey(pk, fd)
		// viewOf: e is P, or a literal/address view of P
		viewOf := func(e ast.Expr) types.Object {
			e = unparen(e)
			if id, ok := e.(*ast.Ident); ok && params[info.Uses[id]] {
				return info.Uses[id]
			}
			if u, ok := e.(*ast.UnaryExpr); ok && u.Op == token.AND {
				if cl, ok := unparen(u.X).(*ast.CompositeLit); ok && len(cl.Elts) == 1 {
					el := cl.Elts[0]
					if kv, ok := el.(*ast.KeyValueExpr); ok {
						el = kv.Value
					}
					if st, ok := unparen(el).(*ast.StarExpr); ok {
						if id, ok := unparen(st.X).(*ast.Ident); ok && params[info.Uses[id]] {
							return info.Uses[id]
						}
					}
				}
			}
			return nil
		}
		type asg struct {
			pos  token.Pos
			view types.Object
		}
		assigns := map[types.Object][]asg{}
		ast.Inspect(fd.Body, func(x ast.Node) bool {
			as, ok := x.(*ast.AssignStmt)
			if !ok {
				return true
			}
			for i, l := range as.Lhs {
				id, ok := l.(*ast.Ident)
				if !ok {
					continue
				}
				o := info.Defs[id]
				if o == nil {
					o = info.Uses[id]
				}
				if o == nil || params[o] || !isMetaCarrier(o.Type()) {
					continue
				}
				var view types.Object
				if len(as.Lhs) == len(as.Rhs) {
					view = viewOf(as.Rhs[i])
				} // else: `t, err = f(…)`, something else than the operand
				assigns[o] = append(assigns[o], asg{as.End(), view})
			}
			return true
		})
		for t, as := range assigns {
			if len(as) < 2 {
				continue
			}
			var p types.Object
			other := false
			last := token.NoPos
			consistent := true
			for _, a := range as {
				if a.view != nil {
					if p != nil && p != a.view {
						consistent = false
					}
					p = a.view
				} else {
					other = true
				}
				if a.pos > last {
					last = a.pos
				}
			}
			if p == nil || !other || !consistent {
				continue
			}
			n++
			key := fmt.Sprintf("WORKALIAS:%s#%s~%s", fkey, t.Name(), p.Name())
			var bad ast.Expr
			ast.Inspect(fd.Body, func(x ast.Node) bool {
				ie, ok := x.(*ast.IndexExpr)
				if !ok || bad != nil || ie.Pos() < last {
					return bad == nil
				}
				se, ok := unparen(ie.X).(*ast.SelectorExpr)
				if !ok || se.Sel.Name != "Value" {
					return true
				}
				b := unparen(se.X)
				if call, ok := b.(*ast.CallExpr); ok {
					if s2, ok := unparen(call.Fun).(*ast.SelectorExpr); ok && s2.Sel.Name == "El" {
						b = unparen(s2.X)
					}
				}
				if id, ok := b.(*ast.Ident); ok && info.Uses[id] == p {
					bad = ie
				}
				return true
			})
			props := []string{"C09"}
			switch {
			case strings.HasPrefix(fkey, "schemes/bgv"):
				props = []string{"C05", "C09"}
			case strings.HasPrefix(fkey, "schemes/ckks"):
				props = []string{"C06", "C09"}
			}
			if bad != nil {
				out = append(out, withProps(violOb("WORKALIAS", key, c.Rel(bad.Pos()), fmt.Sprintf("%s makes %s the working version of the operand %s (the operand itself on some paths, a rescaled or converted copy on others) and then reads %s: on the paths where a copy was made this is the unprocessed data", fkey, t.Name(), p.Name(), exprString(bad))), props...))
			} else {
				out = append(out, withProps(okOb("WORKALIAS", key, c.Rel(fd.Pos()), "the components of the operand are not read after its working version is chosen", true), props...))
			}
		}
	})
	c.Stats["workalias_sites"] = n
	return out
}

func init() {
	core.Register(&core.Rule{Name: "WORKALIAS", Props: []string{"C05", "C06", "C09"},
		Doc: "when a local element is assigned an operand parameter (or a literal view of it) on some paths and something else on others, no component of that operand (P.Value[…]) is read after the last of these assignments",
		Run: func(c *core.Ctx) []ob {
			out := scanWorkAlias(c)
			out = append(out, control(c, "WORKALIAS", scanWorkAlias, "(fixEvaluator).AlignThenCopy")...)
			return out
		}})
}

// OUTALIAS — an output container is not made to refer to an input operand.
//
// `opOut[i] = ctIn` ("the rotation by zero needs no copy") leaves the caller's pre-allocated receiver untouched and
// hands back the input itself: the receiver the caller holds still encrypts what it did before, and an in-place
// operation on the returned entry changes the input ciphertext.
//
// Rule: in every function with an output parameter that is a map or slice of element pointers (named …Out/out), no
// element of it is assigned an input operand parameter (a pointer parameter that is not an output), directly or
// through a local whose only definition is that parameter.
func scanOutAlias(c *core.Ctx) []ob {
	var out []ob
	n := 0
	c.FuncDecls(func(pk *packages.Package, file *ast.File, fd *ast.FuncDecl) {
		if fd.Body == nil || fileIsTestSupport(c.Program, fd.Pos()) || inExamples(pk) {
			return
		}
		info := pk.TypesInfo
		fn, _ := info.Defs[fd.Name].(*types.Func)
		if fn == nil {
			return
		}
		sig := fn.Type().(*types.Signature)
		outs := map[types.Object]bool{}
		ins := map[types.Object]bool{}
		for i := 0; i < sig.Params().Len(); i++ {
			p := sig.Params().At(i)
			switch u := p.Type().Underlying().(type) {
			case *types.Map:
				if _, ok := u.Elem().Underlying().(*types.Pointer); ok && isOutParamName(p.Name()) {
					outs[p] = true
				}
			case *types.Slice:
				if _, ok := u.Elem().Underlying().(*types.Pointer); ok && isOutParamName(p.Name()) {
					outs[p] = true
				}
			case *types.Pointer:
				if !isOutParamName(p.Name()) && isMetaCarrier(p.Type()) {
					ins[p] = true
				}
			}
		}
		if len(outs) == 0 {
			return
		}
		n++
		fkey := core.FuncKey(pk, fd)
		aliases := localAliasesMode(info, fd, false)
		var bad ast.Node
		ast.Inspect(fd.Body, func(x ast.Node) bool {
			as, ok := x.(*ast.AssignStmt)
			if !ok || len(as.Lhs) != len(as.Rhs) || bad != nil {
				return bad == nil
			}
			for i, l := range as.Lhs {
				ie, ok := unparen(l).(*ast.IndexExpr)
				if !ok {
					continue
				}
				id, ok := unparen(ie.X).(*ast.Ident)
				if !ok || !outs[info.Uses[id]] {
					continue
				}
				r := unparen(as.Rhs[i])
				if rid, ok := r.(*ast.Ident); ok {
					o := info.Uses[rid]
					if ins[o] {
						bad = as
					} else if ds, ok := aliases[o]; ok && len(ds) == 1 {
						if d, ok := unparen(ds[0]).(*ast.Ident); ok && ins[info.Uses[d]] {
							bad = as
						}
					}
				}
			}
			return true
		})
		key := "OUTALIAS:" + fkey
		props := append(metaProps(fkey), "C09")
		if bad != nil {
			out = append(out, withProps(violOb("OUTALIAS", key, c.Rel(bad.Pos()), fmt.Sprintf("%s stores an input operand into its output container (%s): the receiver the caller allocated is left as it was and the returned entry is the input itself", fkey, exprString(bad.(*ast.AssignStmt).Lhs[0])+" = "+exprString(bad.(*ast.AssignStmt).Rhs[0]))), props...))
		} else {
			out = append(out, withProps(okOb("OUTALIAS", key, c.Rel(fd.Pos()), "no element of the output container is assigned an input operand", true), props...))
		}
	})
	c.Stats["outalias_fns"] = n
	return out
}

func init() {
	core.Register(&core.Rule{Name: "OUTALIAS", Props: []string{"C09", "C11", "C12", "C04", "C06", "C05"},
		Doc: "in a function with an output map/slice of element pointers, no element of that container is assigned an input operand parameter (directly or through a single-definition local)",
		Run: func(c *core.Ctx) []ob {
			out := scanOutAlias(c)
			for _, o := range control(c, "OUTALIAS", scanOutAlias, "(fixEvaluator).RotateMany") {
				out = append(out, withProps(o, "C09", "C11"))
			}
			for _, o := range core.Floor("OUTALIAS", nil, "functions with an output container of elements", c.Stats["outalias_fns"], 3) {
				out = append(out, withProps(o, "C09", "C11"))
			}
			return out
		}})
}
