package rules

import (
	"fmt"
	"go/ast"
	"go/token"
	"go/types"
	"os"
	"reflect"
	"strings"

	"golang.org/x/tools/go/packages"

	"lvcheck/internal/core"
)

// Tree alignment of two sibling pieces of code (used by CLONE for if/else arms whose shapes are not identical and for
// sibling loop headers / view definitions). Two nodes of the same kind and arity are aligned child by child; where the
// kinds differ the two subtrees form a "hole". Aligned identifiers feed the renaming relation of CLONE; holes feed a
// second relation over their source text. Both relations must be one-to-one.

type alignRes struct {
	total, same int
	dropped     int // leaves of statement pairs that are not alike and were left out
	l2r, r2l    map[string]map[string]bool
	firstPos    map[string]token.Pos
}

func newAlignRes() *alignRes {
	return &alignRes{l2r: map[string]map[string]bool{}, r2l: map[string]map[string]bool{}, firstPos: map[string]token.Pos{}}
}

func (r *alignRes) pair(ka, kb string, pos token.Pos) {
	if r.l2r[ka] == nil {
		r.l2r[ka] = map[string]bool{}
	}
	r.l2r[ka][kb] = true
	if r.r2l[kb] == nil {
		r.r2l[kb] = map[string]bool{}
	}
	r.r2l[kb][ka] = true
	if _, ok := r.firstPos[ka+"|"+kb]; !ok {
		r.firstPos[ka+"|"+kb] = pos
	}
}

func (r *alignRes) inconsistency() string {
	cc := cloneCmp{l2r: r.l2r, r2l: r.r2l}
	return cc.inconsistency()
}

func directChildren(n ast.Node) []ast.Node {
	var out []ast.Node
	first := true
	ast.Inspect(n, func(c ast.Node) bool {
		if c == nil {
			return false
		}
		if first {
			first = false
			return true
		}
		out = append(out, c)
		return false
	})
	return out
}

func leafCount(n ast.Node) int {
	k := 0
	ast.Inspect(n, func(c ast.Node) bool {
		switch c.(type) {
		case *ast.Ident, *ast.BasicLit:
			k++
		}
		return true
	})
	return k
}

func identRenamable(info *types.Info, id *ast.Ident) bool {
	o := info.Uses[id]
	if o == nil {
		o = info.Defs[id]
	}
	switch v := o.(type) {
	case *types.Var:
		return !v.IsField()
	case *types.Func:
		return true
	}
	return false
}

func alignNodes(info *types.Info, a, b ast.Node, r *alignRes) {
	if a == nil || b == nil {
		return
	}
	// comments never matter
	if _, ok := a.(*ast.CommentGroup); ok {
		return
	}
	ta, tb := reflect.TypeOf(a), reflect.TypeOf(b)
	if ta == tb {
		switch x := a.(type) {
		case *ast.Ident:
			y := b.(*ast.Ident)
			r.total++
			if x.Name == y.Name {
				r.same++
			}
			if identRenamable(info, x) && identRenamable(info, y) {
				r.pair("id:"+x.Name, "id:"+y.Name, y.Pos())
			}
			return
		case *ast.BasicLit:
			y := b.(*ast.BasicLit)
			r.total++
			if x.Value == y.Value {
				r.same++
			}
			return
		case *ast.BinaryExpr:
			y := b.(*ast.BinaryExpr)
			r.total++
			if x.Op == y.Op {
				r.same++
			}
		case *ast.UnaryExpr:
			y := b.(*ast.UnaryExpr)
			r.total++
			if x.Op == y.Op {
				r.same++
			}
		case *ast.AssignStmt:
			y := b.(*ast.AssignStmt)
			if len(x.Lhs) != len(y.Lhs) || len(x.Rhs) != len(y.Rhs) {
				r.total += (leafCount(a) + leafCount(b)) / 2
				return
			}
		case *ast.FuncLit:
			return
		case *ast.BlockStmt:
			// statement pairs that are not alike on their own (the one step in which a squaring branch and a general
			// branch legitimately differ) do not feed the substitution relation
			y := b.(*ast.BlockStmt)
			if len(x.List) != len(y.List) {
				r.total += (leafCount(a) + leafCount(b) + 1) / 2
				return
			}
			for i := range x.List {
				sub := newAlignRes()
				alignNodes(info, x.List[i], y.List[i], sub)
				r.dropped += sub.dropped
				if sub.same*10 < sub.total*6 {
					r.dropped += sub.total
					continue
				}
				r.total += sub.total
				r.same += sub.same
				for ka, m := range sub.l2r {
					for kb := range m {
						r.pair(ka, kb, sub.firstPos[ka+"|"+kb])
					}
				}
			}
			return
		}
		ca, cb := directChildren(a), directChildren(b)
		if len(ca) == len(cb) {
			for i := range ca {
				alignNodes(info, ca[i], cb[i], r)
			}
			return
		}
	}
	// hole
	r.total += (leafCount(a) + leafCount(b) + 1) / 2
	ea, oka := a.(ast.Expr)
	eb, okb := b.(ast.Expr)
	if oka && okb {
		r.pair("H:"+exprString(ea), "H:"+exprString(eb), eb.Pos())
	}
}

// ---- CLONE extensions built on the alignment

// bufferRef returns "Buff...[k]" style text when e selects a constant element of an evaluator buffer pool field.
func bufferRefs(info *types.Info, e ast.Expr) map[string]bool {
	out := map[string]bool{}
	ast.Inspect(e, func(n ast.Node) bool {
		ix, ok := n.(*ast.IndexExpr)
		if !ok {
			return true
		}
		if _, ok := unparen(ix.Index).(*ast.BasicLit); !ok {
			return true
		}
		sel, ok := unparen(ix.X).(*ast.SelectorExpr)
		if !ok {
			return true
		}
		if strings.HasPrefix(strings.ToLower(sel.Sel.Name), "buf") || strings.HasPrefix(strings.ToLower(sel.Sel.Name), "pool") {
			out[exprString(ix)] = true
		}
		return true
	})
	return out
}

// subRefs: for a buffer element reference, the sub-part selected on it at each use (".Q", ".P", "" for the whole).
func bufferParts(e ast.Expr) map[string]bool {
	out := map[string]bool{}
	var walk func(n ast.Node, parent ast.Node)
	pm := parentMap(e)
	ast.Inspect(e, func(n ast.Node) bool {
		ix, ok := n.(*ast.IndexExpr)
		if !ok {
			return true
		}
		if _, ok := unparen(ix.Index).(*ast.BasicLit); !ok {
			return true
		}
		sel, ok := unparen(ix.X).(*ast.SelectorExpr)
		if !ok || !(strings.HasPrefix(strings.ToLower(sel.Sel.Name), "buf") || strings.HasPrefix(strings.ToLower(sel.Sel.Name), "pool")) {
			return true
		}
		txt := exprString(ix)
		if p, ok := pm[ix].(*ast.SelectorExpr); ok && p.X == ast.Expr(ix) {
			txt += "." + p.Sel.Name
		}
		out[txt] = true
		return true
	})
	_ = walk
	return out
}

func scanCloneExt(c *core.Ctx) []ob {
	var out []ob
	nArms, nLoops, nViews := 0, 0, 0
	nDupViews := 0
	c.FuncDecls(func(pk *packages.Package, file *ast.File, fd *ast.FuncDecl) {
		rel := core.ShortPkg(pk.PkgPath)
		if fd.Body == nil || fileIsTestSupport(c.Program, fd.Pos()) || strings.HasPrefix(rel, "examples") || strings.HasPrefix(rel, "utils/factorization") || strings.HasPrefix(rel, "utils/bignum") || strings.HasPrefix(rel, "utils/cosine") {
			return
		}
		info := pk.TypesInfo
		fkey := core.FuncKey(pk, fd)
		ordA, ordL, ordV := 0, 0, 0
		var loops []*ast.ForStmt
		checkViews := func(es []ast.Expr, at ast.Node) {
			for i := 0; i+1 < len(es); i++ {
				s1, l1 := shapeAndLeaves(es[i])
				s2, l2 := shapeAndLeaves(es[i+1])
				if s1 != s2 || len(l1) < 3 {
					continue
				}
				identical := true
				for k := range l1 {
					if l1[k].val != l2[k].val {
						identical = false
					}
				}
				if identical {
					continue
				}
				b1, b2 := bufferParts(es[i]), bufferParts(es[i+1])
				if len(b1) == 0 && len(b2) == 0 {
					continue
				}
				ordV++
				nViews++
				key := fmt.Sprintf("CLONE:%s#views%d", fkey, ordV)
				shared := ""
				for k := range b1 {
					if b2[k] {
						shared = k
					}
				}
				if shared != "" {
					out = append(out, withProps(violOb("CLONE", key, c.Rel(es[i+1].Pos()), fmt.Sprintf("%s: the sibling views %s and %s are defined over the same scratch buffer %s: whatever is accumulated in one overwrites the other", fkey, exprString(es[i]), exprString(es[i+1]), shared)), cloneProps(fkey)...))
				} else {
					out = append(out, withProps(okOb("CLONE", key, c.Rel(at.Pos()), "sibling views use distinct scratch buffers", true), cloneProps(fkey)...))
				}
			}
		}
		ast.Inspect(fd.Body, func(n ast.Node) bool {
			switch x := n.(type) {
			case *ast.IfStmt:
				eb, ok := x.Else.(*ast.BlockStmt)
				if !ok || len(x.Body.List) != len(eb.List) || len(x.Body.List) == 0 {
					return true
				}
				// identical shapes are handled by the exact comparison of CLONE
				exact := true
				for i := range x.Body.List {
					s1, _ := shapeAndLeaves(x.Body.List[i])
					s2, _ := shapeAndLeaves(eb.List[i])
					if stripPos(s1) != stripPos(s2) || strings.Contains(s1, "?") {
						exact = false
					}
				}
				if exact {
					return true
				}
				r := newAlignRes()
				alignNodes(info, x.Body, eb, r)
				if os.Getenv("LV_DEBUG_CLONE") != "" {
					fmt.Fprintf(os.Stderr, "CLONE-DEBUG arms %s %s total=%d same=%d %v\n", fkey, c.Rel(x.Pos()), r.total, r.same, r.l2r)
				}
				if r.total < 24 || r.same*10 < r.total*6 || r.total < r.dropped {
					return true
				}
				ordA++
				nArms++
				key := fmt.Sprintf("CLONE:%s#aligned-arms%d", fkey, ordA)
				bad := r.inconsistency()
				if ex, ok := cloneExempt[fkey]; ok && strings.Contains(bad, ex) {
					bad = ""
				}
				if bad != "" {
					out = append(out, withProps(violOb("CLONE", key, c.Rel(eb.Pos()), fmt.Sprintf("%s: the then/else arms at %s and %s align on %d of %d leaves but their differences are not a one-to-one substitution: %s — one occurrence was changed and its siblings were not", fkey, c.Rel(x.Body.Pos()), c.Rel(eb.Pos()), r.same, r.total, bad)), cloneProps(fkey)...))
				} else {
					out = append(out, withProps(okOb("CLONE", key, c.Rel(x.Body.Pos()), fmt.Sprintf("aligned arms: %d/%d leaves equal, the rest a one-to-one substitution", r.same, r.total), true), cloneProps(fkey)...))
				}
			case *ast.ForStmt:
				if x.Init != nil && x.Cond != nil && x.Post != nil {
					loops = append(loops, x)
				}
			case *ast.BlockStmt:
				// two names defined in the same block as the very same slice / element of a buffer: x := b[:n] ; y := b[:n]
				type viewDef struct {
					name string
					rhs  ast.Expr
				}
				seenViews := map[string]viewDef{}
				for _, st := range x.List {
					as, ok := st.(*ast.AssignStmt)
					if !ok || as.Tok != token.DEFINE || len(as.Lhs) != 1 || len(as.Rhs) != 1 {
						continue
					}
					id, ok := as.Lhs[0].(*ast.Ident)
					if !ok || id.Name == "_" {
						continue
					}
					rhs := unparen(as.Rhs[0])
					switch rhs.(type) {
					case *ast.SliceExpr, *ast.IndexExpr:
					default:
						continue
					}
					if tv, ok := info.Types[rhs]; !ok || !storageType(tv.Type) {
						continue
					}
					hasCall := false
					ast.Inspect(rhs, func(n ast.Node) bool {
						if _, ok := n.(*ast.CallExpr); ok {
							hasCall = true
						}
						return true
					})
					if hasCall {
						continue
					}
					es := exprString(rhs)
					nDupViews++
					if prev, dup := seenViews[es]; dup && prev.name != id.Name {
						key := fmt.Sprintf("CLONE:%s#dupview(%s,%s)", fkey, prev.name, id.Name)
						out = append(out, withProps(violOb("CLONE", key, c.Rel(as.Pos()), fmt.Sprintf("%s: %s and %s are both defined as %s: two names for the same storage, whatever is read or written through one is read or written through the other", fkey, prev.name, id.Name, es)), cloneProps(fkey)...))
						continue
					}
					seenViews[es] = viewDef{id.Name, rhs}
				}
				if len(seenViews) >= 2 {
					ordV++
					out = append(out, withProps(okOb("CLONE", fmt.Sprintf("CLONE:%s#viewdefs%d", fkey, ordV), c.Rel(x.Pos()), fmt.Sprintf("%d views defined in the block, all over distinct storage expressions", len(seenViews)), true), cloneProps(fkey)...))
				}
				// adjacent single definitions of the same shape: a := V0 ; b := V1
				for i := 0; i+1 < len(x.List); i++ {
					a1, ok1 := x.List[i].(*ast.AssignStmt)
					a2, ok2 := x.List[i+1].(*ast.AssignStmt)
					if ok1 && ok2 && len(a1.Lhs) == 1 && len(a2.Lhs) == 1 && len(a1.Rhs) == 1 && len(a2.Rhs) == 1 {
						if _, ok := a1.Lhs[0].(*ast.Ident); !ok {
							continue
						}
						if _, ok := a2.Lhs[0].(*ast.Ident); !ok {
							continue
						}
						checkViews([]ast.Expr{a1.Rhs[0], a2.Rhs[0]}, a1)
					}
				}
			case *ast.CompositeLit:
				if len(x.Elts) >= 2 {
					var es []ast.Expr
					for _, e := range x.Elts {
						if kv, ok := e.(*ast.KeyValueExpr); ok {
							e = kv.Value
						}
						es = append(es, e)
					}
					checkViews(es, x)
				}
			case *ast.AssignStmt:
				// sibling view definitions: a, b = V0, V1 with V0, V1 of the same shape
				if len(x.Rhs) < 2 || len(x.Lhs) != len(x.Rhs) {
					return true
				}
				checkViews(x.Rhs, x)
			}
			return true
		})
		// sibling loop headers anywhere in the function
		for i := 0; i < len(loops); i++ {
			for j := i + 1; j < len(loops); j++ {
				a, b := loops[i], loops[j]
				// nested loops are not siblings
				if a.Pos() <= b.Pos() && b.End() <= a.End() {
					continue
				}
				sa, la := shapeAndLeaves(a.Init)
				sb, lb := shapeAndLeaves(b.Init)
				sc, lc := shapeAndLeaves(a.Cond)
				sd, ld := shapeAndLeaves(b.Cond)
				se, le := shapeAndLeaves(a.Post)
				sf, lf := shapeAndLeaves(b.Post)
				if sa != sb || sc != sd || se != sf {
					continue
				}
				la = append(append(la, lc...), le...)
				lb = append(append(lb, ld...), lf...)
				if len(la) < 10 {
					continue
				}
				cc := compareLeaves(info, la, lb)
				if cc.same == cc.total || cc.same*10 < cc.total*6 {
					continue
				}
				// the loops must be related: either their bodies are alike, or the headers are long two-variable
				// headers that agree on all but one or two leaves (the strided loops over the real and imaginary halves)
				related := len(la) >= 14 && cc.total-cc.same <= 2
				if !related && len(a.Body.List) == len(b.Body.List) {
					rb := newAlignRes()
					alignNodes(info, a.Body, b.Body, rb)
					related = rb.total >= 8 && rb.same*10 >= rb.total*6
				}
				if !related {
					continue
				}
				ordL++
				nLoops++
				key := fmt.Sprintf("CLONE:%s#loops%d", fkey, ordL)
				if bad := cc.inconsistency(); bad != "" {
					out = append(out, withProps(violOb("CLONE", key, c.Rel(b.Pos()), fmt.Sprintf("%s: the sibling loops at %s and %s have alike bodies and headers equal in %d of %d leaves, but the headers do not differ by a consistent renaming: %s", fkey, c.Rel(a.Pos()), c.Rel(b.Pos()), cc.same, cc.total, bad)), cloneProps(fkey)...))
				} else {
					out = append(out, withProps(okOb("CLONE", key, c.Rel(a.Pos()), "sibling loop headers differ by a one-to-one renaming", true), cloneProps(fkey)...))
				}
			}
		}
	})
	c.Stats["clone_aligned_arms"] = nArms
	c.Stats["clone_loops"] = nLoops
	c.Stats["clone_views"] = nViews
	c.Stats["clone_viewdefs"] = nDupViews
	return out
}
