package rules

import (
	"fmt"
	"go/ast"
	"go/token"
	"go/types"
	"regexp"
	"strings"

	"golang.org/x/tools/go/packages"

	"lvcheck/internal/core"
)

// GUARD — documented failure conditions are checked and reported as errors.
//
// A frozen table (one line of reason each, confirmed by reading the reference tree) of functions that must
// contain an `if` whose condition mentions all the listed tokens with one of the listed comparison operators and
// whose then-branch leaves the function with a non-nil error (return ..., fmt.Errorf/err) or a panic. The table
// records the *requirement the documentation states*, keyed by function: a guard that is dropped, weakened to
// another quantity, or whose comparison is reversed in direction is reported. A function that no longer exists
// under that name yields an informational record, not an alarm.

type guardSpec struct {
	fn     string   // function key
	tokens []string // substrings that must all occur in the condition's text
	ops    []token.Token
	props  []string
	why    string
}

var guardTable = []guardSpec{
	{"multiparty.(Combiner).GenAdditiveShare", []string{"len(activesPoints)", "threshold"}, []token.Token{token.LSS, token.GTR}, []string{"C15"}, "fewer than t active parties must be refused"},
	{"multiparty.(Combiner).GenAdditiveShare", []string{"slices.Contains", "ownPoint"}, []token.Token{token.NOT}, []string{"C15"}, "the caller must be one of the t points that are combined: a party outside them would multiply its share by t foreign factors and be told all went well"},
	{"multiparty.(Combiner).GenAdditiveShare", []string{`re:slices\.Contains\((\w+)\[:\w+\], (\w+)\[\w+\]\)`}, nil, []string{"C15"}, "a point listed twice is one party, not two: fewer than t distinct parties must be refused"},
	{"multiparty.(Combiner).GenAdditiveShare", []string{`re:slices\.Contains\(\w+, 0\)`}, nil, []string{"C15"}, "points that are distinct integers but congruent modulo one modulus of the ring (or a multiple of it) give a Lagrange factor with a zero residue: the set must be refused, the shares do not determine the secret there"},
	{"ring.(SubRing).generateNTTConstants", []string{"Modulus", "NthRoot"}, []token.Token{token.NEQ}, []string{"C19", "C01"}, "a prime must be congruent to 1 modulo the root order (2N, 4N for the conjugate-invariant ring), not merely modulo 2N"},
	{"core/rlwe.(Parameters).PiOverflowMargin", []string{"level", "0"}, []token.Token{token.LSS}, []string{"C04", "C19"}, "an evaluation key without P on parameters that have one is at P-level -1: the margin of an empty set of primes is the documented -1, not a panic"},
	{"core/rlwe.CheckModuli", []string{"AllDistinct"}, nil, []string{"C19"}, "Q and P together are the RNS basis of QP: a prime present in both must be refused (each ring only checks its own chain)"},
	{"ring.NewRingWithCustomNTT", []string{"AllDistinct(ModuliChain)"}, []token.Token{token.NOT}, []string{"C19", "C01"}, "the moduli of an RNS basis are pairwise distinct (CRT needs coprime moduli): a repeated prime anywhere in the chain is refused"},
	{"core/rlwe.(Evaluator).InitOutputBinaryOp", []string{"op0.Degree() + op1.Degree()|op1.Degree() + op0.Degree()", "opInTotalMaxDegree"}, nil, []string{"C05", "C06", "C04"}, "the degree bound of a binary operation is on the sum of the operands' degrees (a product of degree 1 x 2 or 2 x 2 must be refused), not on the larger one"},
	{"core/rlwe.checkSizeParams", []string{"logN", "MaxLogN"}, []token.Token{token.GTR}, []string{"C19"}, "ring degree above the supported maximum"},
	{"core/rlwe.checkSizeParams", []string{"logN", "MinLogN"}, []token.Token{token.LSS}, []string{"C19"}, "ring degree below the minimum the NTT needs"},
	{"core/rlwe.checkModuliLogSize", []string{"qi", "MaxModuliSize"}, []token.Token{token.GTR, token.LOR}, []string{"C19"}, "requested Q prime size out of range"},
	{"core/rlwe.checkModuliLogSize", []string{"pi", "MaxModuliSize"}, []token.Token{token.GTR, token.LOR}, []string{"C19"}, "requested P prime size out of range"},
	{"core/rlwe.CheckModuli", []string{`re:IsPrime\(q\[\w+\]\)`}, []token.Token{token.NOT}, []string{"C19"}, "every Q modulus must be prime"},
	{"core/rlwe.CheckModuli", []string{`re:IsPrime\(p\[\w+\]\)`}, []token.Token{token.NOT}, []string{"C19"}, "every P modulus must be prime"},
	{"schemes/bgv.NewParameters", []string{"NTTFlag()"}, []token.Token{token.NOT}, []string{"C19", "C05"}, "the integer scheme requires NTT-domain ciphertexts"},
	{"schemes/bgv.NewParameters", []string{"t", "0"}, []token.Token{token.EQL}, []string{"C19"}, "plaintext modulus must be non-zero"},
	{"schemes/bgv.NewParameters", []string{"slices.Contains", "Q()", "t"}, nil, []string{"C19"}, "plaintext modulus must not be one of the ciphertext moduli"},
	{"schemes/bgv.NewParameters", []string{"t", "Q()[0]"}, []token.Token{token.GTR}, []string{"C19"}, "plaintext modulus must not exceed the first ciphertext modulus"},
	{"schemes/bgv.(Evaluator).Rescale", []string{"op0.Level()", "0"}, []token.Token{token.EQL}, []string{"C05"}, "no level left to rescale"},
	{"schemes/bgv.(Evaluator).Rescale", []string{"opOut.Level()", "op0.Level()"}, []token.Token{token.LSS}, []string{"C05"}, "receiver too small for the result"},
	{"schemes/ckks.(Evaluator).Rescale", []string{"op0.Level()", "LevelsConsumedPerRescaling"}, []token.Token{token.LEQ, token.LSS}, []string{"C06"}, "not enough levels for one rescaling (one or two primes)"},
	{"circuits/common/polynomial.(Evaluator).Evaluate", []string{"level", "depth"}, []token.Token{token.LSS}, []string{"C13"}, "an input with too few levels is refused"},
	{"core/rlwe.(Evaluator).CheckAndGetGaloisKey", []string{"EvaluationKeySet", "nil"}, []token.Token{token.NEQ, token.EQL}, []string{"C11", "C04"}, "nil key set is an error, not a dereference"},
	{"core/rlwe.(Evaluator).CheckAndGetRelinearizationKey", []string{"EvaluationKeySet", "nil"}, []token.Token{token.NEQ, token.EQL}, []string{"C05", "C06", "C04"}, "nil key set is an error, not a dereference"},
	{"multiparty.(GaloisKeyGenProtocol).AggregateShares", []string{"share1.GaloisElement", "share2.GaloisElement"}, []token.Token{token.NEQ}, []string{"C14"}, "shares for different Galois elements must not be combined"},
	{"multiparty.(EvaluationKeyGenProtocol).AggregateShares", []string{"share1.LevelQ()", "share2.LevelQ()"}, []token.Token{token.NEQ}, []string{"C14"}, "shares at different levels must not be combined"},
	{"multiparty.(EvaluationKeyGenProtocol).AggregateShares", []string{"share1.BaseTwoDecomposition", "share2.BaseTwoDecomposition"}, []token.Token{token.NEQ}, []string{"C14"}, "shares with different digit decompositions must not be combined (property: 'mismatched shares (different Galois element, level or decomposition) are rejected')"},
	{"multiparty.(EvaluationKeyGenProtocol).GenEvaluationKey", []string{"share.BaseTwoDecomposition", "evk.BaseTwoDecomposition"}, []token.Token{token.NEQ}, []string{"C14"}, "an aggregated share in another digit basis than the receiving key has the same shape for close bases: it must be refused, not copied under the key's tag"},
	{"multiparty.(EvaluationKeyGenProtocol).GenEvaluationKey", []string{"evk.Degree()", "1"}, []token.Token{token.NEQ}, []string{"C14"}, "a compressed receiver has one component per digit: writing the CRP into component 1 must be refused with the error result, not a panic"},
	{"multiparty.(EvaluationKeyGenProtocol).GenShare", []string{"BaseTwoDecompositionVectorSize()"}, nil, []string{"C14"}, "share and CRP must have the same digit decomposition"},
}

func leavesWithError(blk *ast.BlockStmt) bool {
	for _, st := range blk.List {
		switch x := st.(type) {
		case *ast.ReturnStmt:
			if len(x.Results) == 0 {
				return true
			}
			last := x.Results[len(x.Results)-1]
			return !isNilIdent(last)
		case *ast.ExprStmt:
			if call, ok := x.X.(*ast.CallExpr); ok {
				if id, ok := call.Fun.(*ast.Ident); ok && id.Name == "panic" {
					return true
				}
			}
		}
	}
	return false
}

func scanGuard(c *core.Ctx) []ob {
	var out []ob
	if c.IsFixture {
		return nil
	}
	decls := map[string]*ast.FuncDecl{}
	declInfo := map[*ast.FuncDecl]*types.Info{}
	c.FuncDecls(func(pk *packages.Package, file *ast.File, fd *ast.FuncDecl) {
		decls[core.FuncKey(pk, fd)] = fd
		declInfo[fd] = pk.TypesInfo
	})
	n := 0
	for i, g := range guardTable {
		key := fmt.Sprintf("GUARD:%s#%s", g.fn, strings.Join(g.tokens, "&"))
		_ = i
		fd, ok := decls[g.fn]
		if !ok {
			out = append(out, withProps(infoOb("GUARD", key, "", "function no longer present under this name"), g.props...))
			continue
		}
		n++
		found := false
		// the guard may sit in the function itself or in a predicate it delegates its checks to (a function of the
		// same package whose error/bool result it tests): those are searched too
		bodies := []*ast.FuncDecl{fd}
		substs := []map[string]string{nil}
		{
			pkgPrefix := g.fn[:strings.Index(g.fn, ".")+1]
			ast.Inspect(fd.Body, func(nd ast.Node) bool {
				call, ok := nd.(*ast.CallExpr)
				if !ok {
					return true
				}
				name := ""
				switch f := unparen(call.Fun).(type) {
				case *ast.Ident:
					name = f.Name
				case *ast.SelectorExpr:
					name = f.Sel.Name
				}
				if name == "" {
					return true
				}
				for k, d := range decls {
					if !strings.HasPrefix(k, pkgPrefix) || d.Name.Name != name || d == fd || d.Type.Results == nil {
						continue
					}
					// the helper's parameters stand for what this call passes
					sub := map[string]string{}
					ai := 0
					for _, fl := range d.Type.Params.List {
						for _, nm := range fl.Names {
							if ai < len(call.Args) {
								sub[nm.Name] = exprString(call.Args[ai])
							}
							ai++
						}
					}
					bodies = append(bodies, d)
					substs = append(substs, sub)
				}
				return true
			})
		}
		for bi, fd := range bodies {
			if found {
				break
			}
			sub := substs[bi]
			ast.Inspect(fd.Body, func(nd ast.Node) bool {
				// a clause of a tagless switch that leaves with an error is the same guard as an if
				if cc, isClause := nd.(*ast.CaseClause); isClause && !found && len(cc.List) > 0 {
					if sw, ok := parentMapCached(fd)[parentMapCached(fd)[nd]].(*ast.SwitchStmt); ok && sw.Tag == nil {
						nd = &ast.IfStmt{If: cc.Pos(), Cond: cc.List[0], Body: &ast.BlockStmt{Lbrace: cc.Colon, List: cc.Body, Rbrace: cc.End()}}
						for _, extra := range cc.List[1:] {
							nd.(*ast.IfStmt).Cond = &ast.BinaryExpr{X: nd.(*ast.IfStmt).Cond, Op: token.LOR, Y: extra}
						}
					}
				}
				is, ok := nd.(*ast.IfStmt)
				if !ok || found {
					return true
				}
				// the error may be produced by the then-branch, or (for `!= nil {..} else {return err}`) by the else branch
				leaves := leavesWithError(is.Body)
				inverted := false
				if eb, ok := is.Else.(*ast.BlockStmt); ok && leavesWithError(eb) {
					inverted = !leaves
					leaves = true
				}
				// `if a == b { …; return … }` followed by the failing return: the refusal of a != b, spelled positively
				if is.Else == nil && terminates(is.Body.List) {
					if blk, ok := parentMapCached(fd)[ast.Node(is)].(*ast.BlockStmt); ok {
						for i, st := range blk.List {
							if st == ast.Stmt(is) && i+1 < len(blk.List) && leavesWithError(&ast.BlockStmt{List: blk.List[i+1:]}) {
								leaves, inverted = true, true
							}
						}
					}
				}
				if !leaves {
					return true
				}
				cond := exprString(is.Cond)
				if is.Init != nil {
					if as, ok := is.Init.(*ast.AssignStmt); ok {
						for _, r := range as.Rhs {
							cond += " ; " + exprString(r)
						}
					}
				}
				// locals of the condition are read through their (single) definition: totDegree := op0.Degree() + op1.Degree()
				ast.Inspect(is.Cond, func(x ast.Node) bool {
					id, ok := x.(*ast.Ident)
					if !ok {
						return true
					}
					var defs []string
					ast.Inspect(fd.Body, func(y ast.Node) bool {
						as, ok := y.(*ast.AssignStmt)
						if !ok || len(as.Lhs) != len(as.Rhs) {
							return true
						}
						for i, l := range as.Lhs {
							if lid, ok := l.(*ast.Ident); ok && lid.Name == id.Name && as.Pos() < is.Pos() {
								defs = append(defs, exprString(as.Rhs[i]))
							}
						}
						return true
					})
					if len(defs) == 1 {
						cond += " ; " + id.Name + " = " + defs[0]
					}
					return true
				})
				// the same through chains of such locals (totDegree := degree0 + degree1; degree0, degree1 := op0.Degree(), …):
				// the condition with every single-definition local replaced by its definition
				cond += " ; " + expandLocals(fd, is.Cond, is.Cond, 0)
				// inside a loop over a literal table (`for _, chain := range []struct{…}{{moduli: q}, {moduli: p}}`): the
				// condition once per row, with the row's fields in place of `chain.field`
				ast.Inspect(fd.Body, func(y ast.Node) bool {
					rs, ok := y.(*ast.RangeStmt)
					if !ok || rs.Value == nil || rs.Pos() > is.Cond.Pos() || rs.End() < is.Cond.End() {
						return true
					}
					rv, ok := rs.Value.(*ast.Ident)
					cl, ok2 := unparen(rs.X).(*ast.CompositeLit)
					if !ok || !ok2 {
						return true
					}
					base := cond
					for _, row := range cl.Elts {
						rcl, ok := unparen(row).(*ast.CompositeLit)
						if !ok {
							continue
						}
						v := base
						for _, el := range rcl.Elts {
							if kv, ok := el.(*ast.KeyValueExpr); ok {
								if k, ok := kv.Key.(*ast.Ident); ok {
									v = strings.ReplaceAll(v, rv.Name+"."+k.Name, exprString(kv.Value))
								}
							}
						}
						cond += " ; " + v
					}
					return true
				})
				if len(sub) > 0 {
					// in a helper: the condition once more with the helper's parameters replaced by the caller's arguments
					sc := cond
					for pn, at := range sub {
						sc = regexp.MustCompile(`\b`+regexp.QuoteMeta(pn)+`\b`).ReplaceAllString(sc, strings.ReplaceAll(at, "$", "$$"))
					}
					cond += " ; " + sc
				}
				for _, t := range g.tokens {
					any := false
					if strings.HasPrefix(t, "re:") {
						if re, err := regexp.Compile(t[3:]); err == nil {
							if m := re.FindStringSubmatch(cond); m != nil && (len(m) < 3 || m[1] == m[2]) {
								any = true
							}
						}
					} else {
						for _, alt := range strings.Split(t, "|") {
							if strings.Contains(cond, alt) {
								any = true
							}
						}
					}
					if !any {
						return true
					}
				}
				if len(g.ops) > 0 {
					opOK := false
					// comparisons under a negation count with the complementary operator (!(a >= b) is a < b)
					negated := map[*ast.BinaryExpr]bool{}
					var markNeg func(e ast.Expr, neg bool)
					markNeg = func(e ast.Expr, neg bool) {
						switch v := unparen(e).(type) {
						case *ast.UnaryExpr:
							if v.Op == token.NOT {
								markNeg(v.X, !neg)
							}
						case *ast.BinaryExpr:
							if v.Op == token.LAND || v.Op == token.LOR {
								markNeg(v.X, neg)
								markNeg(v.Y, neg)
							} else if neg {
								negated[v] = true
							}
						}
					}
					markNeg(is.Cond, false)
					compl := map[token.Token]token.Token{token.LSS: token.GEQ, token.GEQ: token.LSS, token.GTR: token.LEQ, token.LEQ: token.GTR, token.EQL: token.NEQ, token.NEQ: token.EQL}
					ast.Inspect(is.Cond, func(x ast.Node) bool {
						switch v := x.(type) {
						case *ast.BinaryExpr:
							if negated[v] {
								if c2, ok := compl[v.Op]; ok {
									v = &ast.BinaryExpr{X: v.X, Op: c2, Y: v.Y, OpPos: v.OpPos}
								}
							}
							for _, o := range g.ops {
								ordering := o == token.LSS || o == token.GTR || o == token.LEQ || o == token.GEQ
								if !ordering || len(g.tokens) != 2 {
									if v.Op == o {
										opOK = true
									}
									if inverted && (o == token.NEQ && v.Op == token.EQL || o == token.EQL && v.Op == token.NEQ) {
										opOK = true
									}
									continue
								}
								// ordering comparisons: the sides matter, and the mirrored spelling (b > a for a < b) is the same test
								lx, ly := exprString(v.X)+" ; "+expandLocals(fd, is.Cond, v.X, 0), exprString(v.Y)+" ; "+expandLocals(fd, is.Cond, v.Y, 0)
								if len(sub) > 0 {
									for pn, at := range sub {
										re := regexp.MustCompile(`\b` + regexp.QuoteMeta(pn) + `\b`)
										lx += " ; " + re.ReplaceAllString(lx, strings.ReplaceAll(at, "$", "$$"))
										ly += " ; " + re.ReplaceAllString(ly, strings.ReplaceAll(at, "$", "$$"))
									}
								}
								mirror := map[token.Token]token.Token{token.LSS: token.GTR, token.GTR: token.LSS, token.LEQ: token.GEQ, token.GEQ: token.LEQ}
								if v.Op == o && strings.Contains(lx, g.tokens[0]) && strings.Contains(ly, g.tokens[1]) {
									opOK = true
								}
								if v.Op == mirror[o] && strings.Contains(lx, g.tokens[1]) && strings.Contains(ly, g.tokens[0]) {
									opOK = true
								}
							}
						case *ast.UnaryExpr:
							for _, o := range g.ops {
								if v.Op == o {
									opOK = true
								}
							}
						}
						return true
					})
					if !opOK {
						return true
					}
				}
				found = true
				return false
			})
		}
		pos := c.Rel(fd.Pos())
		if !found && len(g.tokens) == 2 && guardThroughFunctionValue(declInfo[fd], fd, g.tokens) {
			// the comparison is made through a function value applied to both operands (a table of accessors walked by
			// a loop): which quantities are compared is data, not code — nothing this table can decide
			out = append(out, withProps(infoOb("GUARD", key, pos, g.why+": the function compares its operands through a function value (table of accessors); not decided"), g.props...))
			continue
		}
		if found {
			out = append(out, withProps(okOb("GUARD", key, pos, g.why+": checked and reported as an error", true), g.props...))
		} else {
			out = append(out, withProps(violOb("GUARD", key, pos, fmt.Sprintf("%s no longer contains the check (%s) that makes this documented failure condition an error: %s", g.fn, strings.Join(g.tokens, ", "), g.why)), g.props...))
		}
	}
	c.Stats["guards"] = n
	return out
}

func init() {
	props := map[string]bool{}
	for _, g := range guardTable {
		for _, p := range g.props {
			props[p] = true
		}
	}
	core.Register(&core.Rule{Name: "GUARD", Props: sortedKeys(props),
		Doc: "each function of a frozen table of documented failure conditions contains an `if` whose condition mentions the stated quantities with the stated comparison and whose branch leaves with a non-nil error or a panic",
		Run: func(c *core.Ctx) []ob {
			out := scanGuard(c)
			for _, o := range core.Floor("GUARD", nil, "guarded functions", c.Stats["guards"], 15) {
				out = append(out, withProps(o, sortedKeys(props)...))
			}
			return out
		}})
}

// expandLocals renders e with every identifier that has exactly one definition before the statement `at` (in the
// function body) replaced by the rendering of that definition, recursively.
func expandLocals(fd *ast.FuncDecl, at ast.Node, e ast.Expr, depth int) string {
	if depth > 5 {
		return exprString(e)
	}
	switch x := e.(type) {
	case *ast.ParenExpr:
		return "(" + expandLocals(fd, at, x.X, depth) + ")"
	case *ast.Ident:
		var defs []ast.Expr
		ast.Inspect(fd.Body, func(y ast.Node) bool {
			as, ok := y.(*ast.AssignStmt)
			if !ok || len(as.Lhs) != len(as.Rhs) {
				return true
			}
			for i, l := range as.Lhs {
				if lid, ok := l.(*ast.Ident); ok && lid.Name == x.Name && as.Pos() < at.Pos() {
					defs = append(defs, as.Rhs[i])
				}
			}
			return true
		})
		if len(defs) == 0 {
			// the value variable of an enclosing range statement stands for the element
			var elem string
			ast.Inspect(fd.Body, func(y ast.Node) bool {
				rs, ok := y.(*ast.RangeStmt)
				if !ok || rs.Value == nil || rs.Key == nil || rs.Pos() > at.Pos() || rs.End() < at.End() {
					return true
				}
				if v, ok := rs.Value.(*ast.Ident); ok && v.Name == x.Name {
					elem = exprString(rs.X) + "[" + exprString(rs.Key) + "]"
				}
				return true
			})
			if elem != "" {
				return elem
			}
		}
		if len(defs) == 1 {
			r := expandLocals(fd, at, defs[0], depth+1)
			if _, bin := unparen(defs[0]).(*ast.BinaryExpr); bin && depth > 0 {
				return "(" + r + ")"
			}
			return r
		}
		return x.Name
	case *ast.BinaryExpr:
		return expandLocals(fd, at, x.X, depth+1) + " " + x.Op.String() + " " + expandLocals(fd, at, x.Y, depth+1)
	case *ast.UnaryExpr:
		return x.Op.String() + expandLocals(fd, at, x.X, depth+1)
	case *ast.CallExpr:
		var as []string
		for _, a := range x.Args {
			as = append(as, expandLocals(fd, at, a, depth+1))
		}
		return exprString(x.Fun) + "(" + strings.Join(as, ", ") + ")"
	case *ast.IndexExpr:
		// moduliQ[0] with moduliQ := params.Q()
		return expandLocals(fd, at, x.X, depth+1) + "[" + expandLocals(fd, at, x.Index, depth+1) + "]"
	case *ast.SelectorExpr:
		if _, isId := unparen(x.X).(*ast.Ident); isId {
			return exprString(e) // a field or method of a named value: kept as written
		}
		return expandLocals(fd, at, x.X, depth+1) + "." + x.Sel.Name
	}
	return exprString(e)
}

// guardThroughFunctionValue: the function has a failing guard whose condition applies one function value (a field or
// variable of function type, not a declared function) to expressions rooted at the two operands the entry names.
func guardThroughFunctionValue(info *types.Info, fd *ast.FuncDecl, tokens []string) bool {
	rootName := func(tok string) string {
		tok = strings.TrimPrefix(tok, "re:")
		for i, r := range tok {
			if !(r == '_' || r >= 'a' && r <= 'z' || r >= 'A' && r <= 'Z' || r >= '0' && r <= '9') {
				return tok[:i]
			}
		}
		return tok
	}
	a, b := rootName(tokens[0]), rootName(tokens[1])
	if a == "" || b == "" || a == b {
		return false
	}
	found := false
	ast.Inspect(fd.Body, func(x ast.Node) bool {
		is, ok := x.(*ast.IfStmt)
		if !ok || found {
			return !found
		}
		if !leavesWithError(is.Body) {
			return true
		}
		scope := ast.Node(is.Cond)
		seen := map[string]map[string]bool{} // function value text -> roots of its arguments
		visit := func(nd ast.Node) {
			ast.Inspect(nd, func(y ast.Node) bool {
				call, ok := y.(*ast.CallExpr)
				if !ok || len(call.Args) == 0 {
					return true
				}
				if calleeFunc(info, call) != nil {
					// a predicate of the module that receives a function value together with the operands
					// (`!sharesAgree(field.get, share1, share2, share3)`): what it compares is the function value's business
					hasFn := false
					for _, arg := range call.Args {
						if t := info.TypeOf(arg); t != nil {
							if _, isSig := t.Underlying().(*types.Signature); isSig {
								if id := rootIdent(arg); id != nil {
									if _, isVar := info.Uses[id].(*types.Var); isVar {
										hasFn = true
									}
								}
							}
						}
					}
					if !hasFn {
						return true
					}
				} else if _, isSig := info.TypeOf(call.Fun).Underlying().(*types.Signature); !isSig {
					return true
				}
				key := exprString(call.Fun)
				for _, arg := range call.Args {
					if r := rootIdent(arg); r != nil {
						if seen[key] == nil {
							seen[key] = map[string]bool{}
						}
						seen[key][r.Name] = true
					}
				}
				return true
			})
		}
		visit(scope)
		if is.Init != nil {
			visit(is.Init)
		}
		for _, roots := range seen {
			if roots[a] && roots[b] {
				found = true
			}
		}
		return !found
	})
	return found
}
