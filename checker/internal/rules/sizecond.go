package rules

import (
	"fmt"
	"go/ast"
	"go/token"
	"go/types"
	"regexp"
	"sort"
	"strings"

	"golang.org/x/tools/go/packages"

	"lvcheck/internal/core"
)

// SIZECOND — BinarySize and WriteTo decide the presence of an optional part with the same test.
//
// `WriteTo` documents that it writes exactly `BinarySize()` bytes. For a type with an optional part (a nil-able
// sub-object, a seed that exists only in the compressed form, ...) both methods contain a test of its presence; when
// the two tests are different predicates (`Seed != nil` in one, `IsCompressed()` in the other; `len(m) != 0` in one,
// `m != nil` in the other) there is a state of the object in which the announced and the written size differ.
//
// For every type with both methods the rule collects, per receiver field, the presence conditions (enclosing `if`
// conditions with their polarity, error tests and sanity checks that only return an error left out, the receiver's
// name normalised) under which the field contributes to the size / is written, and demands that a field that is
// conditional in both methods is conditional on the same set of conditions. A field that is conditional in only one of
// the two methods is not decided (the other method may delegate the test to the sub-object).

type scGuards map[string]map[string]bool // field -> set of guard strings

// scDecls: the method declarations of the program (set by scanSizeCond); scDepth bounds the descent into helpers.
var scDecls = map[*types.Func]*ast.FuncDecl{}
var scDepth = 0

func scCollect(info *types.Info, fd *ast.FuncDecl) scGuards {
	res := scGuards{}
	if fd.Recv == nil || len(fd.Recv.List) == 0 || len(fd.Recv.List[0].Names) == 0 {
		return res
	}
	recvName := fd.Recv.List[0].Names[0].Name
	recvObj := info.Defs[fd.Recv.List[0].Names[0]]
	if recvObj == nil {
		return res
	}
	re := regexp.MustCompile(`\b` + regexp.QuoteMeta(recvName) + `\b`)
	// a presence flag kept in a local (`var has uint8; if recv.X != nil { has = 1 }` … `if has == 1`) stands for the
	// condition under which it is set
	flagCond := func(e ast.Expr) ast.Expr {
		e = unparen(e)
		var id *ast.Ident
		switch x := e.(type) {
		case *ast.Ident:
			id = x
		case *ast.BinaryExpr:
			if lit, ok := unparen(x.Y).(*ast.BasicLit); ok && (x.Op == token.EQL && lit.Value == "1" || x.Op == token.NEQ && lit.Value == "0") {
				id, _ = unparen(x.X).(*ast.Ident)
			}
		}
		if id == nil {
			return nil
		}
		o := info.Uses[id]
		if o == nil {
			return nil
		}
		var found ast.Expr
		n := 0
		ast.Inspect(fd.Body, func(y ast.Node) bool {
			is, ok := y.(*ast.IfStmt)
			if !ok || is.Else != nil || len(is.Body.List) != 1 {
				return true
			}
			as, ok := is.Body.List[0].(*ast.AssignStmt)
			if !ok || len(as.Lhs) != 1 || len(as.Rhs) != 1 || identObj(info, as.Lhs[0]) != o {
				return true
			}
			if tv, ok := info.Types[as.Rhs[0]]; ok && tv.Value != nil && (tv.Value.ExactString() == "1" || tv.Value.ExactString() == "true") {
				found = is.Cond
				n++
			}
			return true
		})
		if n == 1 {
			return found
		}
		return nil
	}
	norm := func(e ast.Expr) string {
		if fc := flagCond(e); fc != nil {
			e = fc
		}
		return re.ReplaceAllString(exprString(e), "recv")
	}
	mentionsErr := func(e ast.Expr) bool {
		found := false
		ast.Inspect(e, func(n ast.Node) bool {
			if id, ok := n.(*ast.Ident); ok {
				if o := info.Uses[id]; o != nil && isErrorType(o.Type()) {
					found = true
				}
			}
			return true
		})
		return found
	}
	onlyFails := func(b *ast.BlockStmt) bool {
		if len(b.List) == 0 {
			return false
		}
		switch x := b.List[len(b.List)-1].(type) {
		case *ast.ReturnStmt:
			if len(x.Results) == 0 {
				return false
			}
			last := x.Results[len(x.Results)-1]
			if tv, ok := info.Types[last]; ok && isErrorType(tv.Type) && !isNilIdent(last) {
				return len(b.List) == 1
			}
		case *ast.ExprStmt:
			if call, ok := x.X.(*ast.CallExpr); ok {
				if id, ok := call.Fun.(*ast.Ident); ok && id.Name == "panic" {
					return len(b.List) == 1
				}
			}
		}
		return false
	}
	var walk func(n ast.Node, guards []string)
	mention := func(n ast.Node, guards []string) {
		ast.Inspect(n, func(x ast.Node) bool {
			// an unexported helper of the receiver (op.writeMetaData(w)): what it mentions, under its own conditions
			if call, ok := x.(*ast.CallExpr); ok && scDepth < 2 {
				if hs, ok := unparen(call.Fun).(*ast.SelectorExpr); ok {
					if id, ok := unparen(hs.X).(*ast.Ident); ok && info.Uses[id] == recvObj && !ast.IsExported(hs.Sel.Name) {
						if m := calleeFunc(info, call); m != nil {
							if hd := scDecls[funcOrigin(m)]; hd != nil && hd != fd {
								scDepth++
								sub := scCollect(info, hd)
								scDepth--
								for f, gs := range sub {
									if res[f] == nil {
										res[f] = map[string]bool{}
									}
									for g := range gs {
										all := append(append([]string{}, guards...), g)
										if g == "" {
											all = guards
										}
										res[f][strings.Join(all, " && ")] = true
									}
								}
							}
						}
					}
				}
			}
			se, ok := x.(*ast.SelectorExpr)
			if !ok {
				return true
			}
			id, ok := unparen(se.X).(*ast.Ident)
			if !ok || info.Uses[id] != recvObj {
				return true
			}
			if sel := info.Selections[se]; sel == nil || sel.Kind() != types.FieldVal {
				return true
			}
			g := strings.Join(guards, " && ")
			if res[se.Sel.Name] == nil {
				res[se.Sel.Name] = map[string]bool{}
			}
			res[se.Sel.Name][g] = true
			return true
		})
	}
	walk = func(n ast.Node, guards []string) {
		switch x := n.(type) {
		case nil:
			return
		case *ast.BlockStmt:
			for _, st := range x.List {
				walk(st, guards)
			}
		case *ast.IfStmt:
			if x.Init != nil {
				walk(x.Init, guards)
			}
			if mentionsErr(x.Cond) {
				// error handling: the tested call may itself be a contribution (if inc, err = x.F.WriteTo(w); err != nil)
				if x.Else != nil {
					walk(x.Else, guards)
				}
				return
			}
			if onlyFails(x.Body) && x.Else == nil {
				return // sanity check
			}
			c := norm(x.Cond)
			walk(x.Body, append(append([]string{}, guards...), "+"+c))
			if x.Else != nil {
				walk(x.Else, append(append([]string{}, guards...), "-"+c))
			}
		case *ast.ForStmt:
			walk(x.Body, guards)
		case *ast.RangeStmt:
			mention(x.X, guards)
			walk(x.Body, guards)
		case *ast.SwitchStmt:
			for _, cc := range x.Body.List {
				for _, st := range cc.(*ast.CaseClause).Body {
					walk(st, guards)
				}
			}
		case *ast.TypeSwitchStmt:
			for _, cc := range x.Body.List {
				for _, st := range cc.(*ast.CaseClause).Body {
					walk(st, guards)
				}
			}
		case *ast.FuncLit:
			return
		default:
			mention(n, guards)
		}
	}
	walk(fd.Body, nil)
	return res
}

func scanSizeCond(c *core.Ctx) []ob {
	var out []ob
	type pair struct {
		size, write *ast.FuncDecl
		pk          *packages.Package
	}
	byType := map[string]*pair{}
	scDecls = map[*types.Func]*ast.FuncDecl{}
	c.FuncDecls(func(pk *packages.Package, file *ast.File, fd *ast.FuncDecl) {
		if fd.Body != nil && fd.Recv != nil {
			if o, ok := pk.TypesInfo.Defs[fd.Name].(*types.Func); ok {
				scDecls[funcOrigin(o)] = fd
			}
		}
	})
	c.FuncDecls(func(pk *packages.Package, file *ast.File, fd *ast.FuncDecl) {
		if fd.Body == nil || fd.Recv == nil || fileIsTestSupport(c.Program, fd.Pos()) || inExamples(pk) {
			return
		}
		if fd.Name.Name != "BinarySize" && fd.Name.Name != "WriteTo" {
			return
		}
		k := core.ShortPkg(pk.PkgPath) + "." + core.RecvTypeName(fd)
		p := byType[k]
		if p == nil {
			p = &pair{pk: pk}
			byType[k] = p
		}
		if fd.Name.Name == "BinarySize" {
			p.size = fd
		} else {
			p.write = fd
		}
	})
	keys := make([]string, 0, len(byType))
	for k := range byType {
		keys = append(keys, k)
	}
	sort.Strings(keys)
	nTypes, nCond, nFields := 0, 0, 0
	for _, k := range keys {
		p := byType[k]
		if p.size == nil || p.write == nil {
			continue
		}
		nTypes++
		gs, gw := scCollect(p.pk.TypesInfo, p.size), scCollect(p.pk.TypesInfo, p.write)
		// the two methods account for the same parts: a field that only one of them mentions
		{
			var onlyS, onlyW []string
			// only parts that have a size of their own (a BinarySize method): fixed-width fields are constants in BinarySize
			sized := scSizedFields(p.pk.TypesInfo, p.size)
			for f := range gs {
				if _, ok := gw[f]; !ok && sized[f] {
					onlyS = append(onlyS, f)
				}
			}
			for f := range gw {
				if _, ok := gs[f]; !ok && sized[f] {
					onlyW = append(onlyW, f)
				}
			}
			sort.Strings(onlyS)
			sort.Strings(onlyW)
			if len(gs) > 0 && len(gw) > 0 {
				nFields++
				key := fmt.Sprintf("SIZECOND:%s#fields", k)
				if len(onlyS) == 0 && len(onlyW) == 0 {
					out = append(out, okOb("SIZECOND", key, c.Rel(p.size.Pos()), fmt.Sprintf("BinarySize and WriteTo mention the same %d receiver fields", len(gs)), true))
				} else {
					out = append(out, violOb("SIZECOND", key, c.Rel(p.size.Pos()), fmt.Sprintf("%s: BinarySize and WriteTo do not account for the same parts of the object: only BinarySize mentions %v, only WriteTo mentions %v", k, onlyS, onlyW)))
				}
			}
		}
		fields := make([]string, 0, len(gs))
		for f := range gs {
			if _, ok := gw[f]; ok {
				fields = append(fields, f)
			}
		}
		sort.Strings(fields)
		for _, f := range fields {
			nonEmpty := func(m map[string]bool) []string {
				var r []string
				for g := range m {
					if g != "" {
						r = append(r, g)
					}
				}
				sort.Strings(r)
				return r
			}
			a, b := nonEmpty(gs[f]), nonEmpty(gw[f])
			if len(a) == 0 || len(b) == 0 {
				continue
			}
			nCond++
			key := fmt.Sprintf("SIZECOND:%s.%s", k, f)
			if strings.Join(a, " | ") == strings.Join(b, " | ") {
				out = append(out, okOb("SIZECOND", key, c.Rel(p.size.Pos()), "BinarySize and WriteTo make the part conditional on the same test: "+strings.Join(a, " | "), true))
			} else {
				out = append(out, violOb("SIZECOND", key, c.Rel(p.size.Pos()), fmt.Sprintf("%s: BinarySize counts field %s under [%s] but WriteTo writes it under [%s]: in a state where the two tests differ the object announces a size it does not write", k, f, strings.Join(a, " | "), strings.Join(b, " | "))))
			}
		}
	}
	c.Stats["sizecond_types"] = nTypes
	c.Stats["sizecond_fields"] = nCond
	c.Stats["sizecond_fieldsets"] = nFields
	return out
}

func init() {
	core.Register(&core.Rule{Name: "SIZECOND", Props: []string{"C08"},
		Doc: "for every type with BinarySize and WriteTo, a receiver field that is conditional in both methods (optional sub-object, seed of the compressed form) is conditional on the same presence tests in both, and both methods mention the same sized parts (fields whose type has its own BinarySize)",
		Run: func(c *core.Ctx) []ob {
			out := scanSizeCond(c)
			out = append(out, control(c, "SIZECOND", scanSizeCond, "lvfixture.Opt.Extra")...)
			out = append(out, core.Floor("SIZECOND", nil, "types with BinarySize and WriteTo", c.Stats["sizecond_types"], 20)...)
			out = append(out, core.Floor("SIZECOND", nil, "fields conditional in both methods", c.Stats["sizecond_fields"], 3)...)
			out = append(out, core.Floor("SIZECOND", nil, "types whose sized parts are compared", c.Stats["sizecond_fieldsets"], 12)...)
			return out
		}})
}

// scSizedFields: the fields of the receiver's struct whose type (or a pointer to it) has a BinarySize method.
func scSizedFields(info *types.Info, fd *ast.FuncDecl) map[string]bool {
	res := map[string]bool{}
	if fd.Recv == nil || len(fd.Recv.List) == 0 {
		return res
	}
	t := info.TypeOf(fd.Recv.List[0].Type)
	st := structOf(t)
	if st == nil {
		return res
	}
	for i := 0; i < st.NumFields(); i++ {
		f := st.Field(i)
		for _, ft := range []types.Type{f.Type(), types.NewPointer(f.Type())} {
			if o, _, _ := types.LookupFieldOrMethod(ft, true, f.Pkg(), "BinarySize"); o != nil {
				if _, isFn := o.(*types.Func); isFn {
					res[f.Name()] = true
				}
			}
		}
	}
	return res
}
