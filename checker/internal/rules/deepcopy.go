package rules

import (
	"fmt"
	"go/ast"
	"go/token"
	"go/types"
	"sort"
	"strings"

	"golang.org/x/tools/go/packages"

	"lvcheck/internal/core"
)

// DEEPCOPY — a deep copy shares no storage with the original.
//
// `CopyNew` / `Clone` promise an independent object: "mutating a deep copy never changes the original". For every such
// method of a struct type, each field whose type carries references (pointer, slice, map, or a struct that contains
// one — big.Float and big.Int included) must be produced by something other than a plain value copy of the
// receiver's field: a nested CopyNew/Clone, a constructor, make+copy, `new(big.Int).Set(..)`. The two shapes of plain
// copy are a whole-struct value copy (`return &m`, `c := m`) whose reference fields are not re-assigned afterwards, and
// a literal `F: recv.F`.
func scanDeepCopy(c *core.Ctx) []ob {
	var out []ob
	n := 0
	c.FuncDecls(func(pk *packages.Package, file *ast.File, fd *ast.FuncDecl) {
		if fd.Body == nil || fd.Recv == nil || (fd.Name.Name != "CopyNew" && fd.Name.Name != "Clone") || fileIsTestSupport(c.Program, fd.Pos()) || inExamples(pk) {
			return
		}
		// the property speaks of the deep copies of ciphertexts, keys, shares and their containers
		if rel := core.ShortPkg(pk.PkgPath); !c.IsFixture && strings.HasPrefix(rel, "utils/bignum") {
			return
		}
		info := pk.TypesInfo
		named, _ := core.RecvNamed(info, fd)
		recv := recvObj(info, fd)
		if named == nil || recv == nil {
			return
		}
		st := structOf(named)
		if st == nil {
			return
		}
		fkey := core.FuncKey(pk, fd)
		refFields := map[string]bool{}
		for i := 0; i < st.NumFields(); i++ {
			if hasPointers(st.Field(i).Type(), 0) {
				refFields[st.Field(i).Name()] = true
			}
		}
		if len(refFields) == 0 {
			return
		}
		isRecv := func(e ast.Expr) bool {
			e = unparen(e)
			if s, ok := e.(*ast.StarExpr); ok {
				e = unparen(s.X)
			}
			id, ok := e.(*ast.Ident)
			return ok && info.Uses[id] == recv
		}
		// shared: field name -> how
		shared := map[string]string{}
		// locals holding a whole-struct value copy of the receiver
		copies := map[types.Object]token.Pos{}
		ast.Inspect(fd.Body, func(x ast.Node) bool {
			switch v := x.(type) {
			case *ast.AssignStmt:
				if len(v.Lhs) == len(v.Rhs) {
					for i, l := range v.Lhs {
						if id, ok := unparen(l).(*ast.Ident); ok && isRecv(v.Rhs[i]) {
							o := info.Defs[id]
							if o == nil {
								o = info.Uses[id]
							}
							if o != nil {
								copies[o] = v.Pos()
							}
						}
						// *ptr = recv
						if s, ok := unparen(l).(*ast.StarExpr); ok && isRecv(v.Rhs[i]) {
							if id, ok := unparen(s.X).(*ast.Ident); ok {
								if o := info.Uses[id]; o != nil {
									copies[o] = v.Pos()
								}
							}
						}
					}
				}
			case *ast.ReturnStmt:
				for _, r := range v.Results {
					r = unparen(r)
					if u, ok := r.(*ast.UnaryExpr); ok && u.Op == token.AND && isRecv(u.X) {
						for f := range refFields {
							shared[f] = "`return &" + recv.Name() + "` copies the struct value, which shares the storage behind " + f
						}
					}
					if isRecv(r) {
						if _, isStruct := info.TypeOf(r).Underlying().(*types.Struct); isStruct {
							for f := range refFields {
								shared[f] = "the receiver value itself is returned, which shares the storage behind " + f
							}
						}
					}
				}
			case *ast.CompositeLit:
				if structOf(info.TypeOf(v)) != st && namedOf(info.TypeOf(v)) != named {
					return true
				}
				for _, el := range v.Elts {
					kv, ok := el.(*ast.KeyValueExpr)
					if !ok {
						continue
					}
					k, ok := kv.Key.(*ast.Ident)
					if !ok || !refFields[k.Name] {
						continue
					}
					if sel, ok := unparen(kv.Value).(*ast.SelectorExpr); ok && isRecv(sel.X) && sel.Sel.Name == k.Name {
						shared[k.Name] = fmt.Sprintf("the literal sets %s: %s (a plain copy of the reference)", k.Name, exprString(kv.Value))
					}
				}
			}
			return true
		})
		// whole-struct copies: fields re-assigned afterwards from something fresh are fine
		for o, pos := range copies {
			reassigned := map[string]bool{}
			ast.Inspect(fd.Body, func(x ast.Node) bool {
				as, ok := x.(*ast.AssignStmt)
				if !ok || as.Pos() <= pos {
					return true
				}
				for i, l := range as.Lhs {
					// the top-level field of the copy that the assignment reaches (c.F = .., c.F.G = .., promoted fields)
					var first *ast.SelectorExpr
					cur := unparen(l)
					for {
						sel, ok := cur.(*ast.SelectorExpr)
						if !ok {
							break
						}
						first = sel
						cur = unparen(sel.X)
					}
					id, ok := cur.(*ast.Ident)
					if !ok || first == nil || info.Uses[id] != o {
						continue
					}
					if len(as.Lhs) == len(as.Rhs) {
						if rs, ok := unparen(as.Rhs[i]).(*ast.SelectorExpr); ok && isRecv(rs.X) {
							continue // c.F = recv.F : still shared
						}
					}
					top := first.Sel.Name
					if sl := info.Selections[first]; sl != nil && len(sl.Index()) > 1 {
						top = st.Field(sl.Index()[0]).Name()
					}
					reassigned[top] = true
				}
				return true
			})
			for f := range refFields {
				if !reassigned[f] {
					shared[f] = fmt.Sprintf("%s is a value copy of the receiver (at %s) and its field %s is not re-created afterwards", o.Name(), c.Rel(pos), f)
				}
			}
		}
		var fields []string
		for f := range refFields {
			fields = append(fields, f)
		}
		sort.Strings(fields)
		for _, f := range fields {
			n++
			key := fmt.Sprintf("DEEPCOPY:%s#%s", fkey, f)
			if ex := deepCopyExempt[key]; ex != "" {
				out = append(out, okOb("DEEPCOPY", key, c.Rel(fd.Pos()), "exempt: "+ex, false))
				continue
			}
			if how, bad := shared[f]; bad {
				out = append(out, violOb("DEEPCOPY", key, c.Rel(fd.Pos()), fmt.Sprintf("%s is a deep copy, but %s: changing the copy in place changes the original", fkey, how)))
			} else {
				out = append(out, okOb("DEEPCOPY", key, c.Rel(fd.Pos()), "not a plain copy of the receiver's reference", true))
			}
		}
	})
	c.Stats["deepcopy_fields"] = n
	return out
}

// deepCopyExempt: obligation key -> reason.
var deepCopyExempt = map[string]string{}

func init() {
	core.Register(&core.Rule{Name: "DEEPCOPY", Props: []string{"C10"},
		Doc: "in every CopyNew/Clone of a struct type, no field that carries references (pointer, slice, map, big.Float/big.Int, structs containing them) is produced by a plain value copy of the receiver's field (whole-struct value copy without re-creation, or `F: recv.F`)",
		Run: func(c *core.Ctx) []ob {
			out := scanDeepCopy(c)
			out = append(out, core.Floor("DEEPCOPY", nil, "reference fields of deep-copied types", c.Stats["deepcopy_fields"], 10)...)
			out = append(out, control(c, "DEEPCOPY", scanDeepCopy, "(Thing).CopyNew")...)
			return out
		}})
}

var _ = strings.Contains
var _ = packages.NeedName
