package rules

import (
	"fmt"
	"go/ast"
	"go/token"
	"strings"

	"golang.org/x/tools/go/packages"

	"lvcheck/internal/core"
)

// ERRREUSE — one draw from an error sampler masks one component.
//
// A fresh ciphertext under a public key, a key-switching key row or a multiparty share needs an independent error
// in every component that carries one. The code draws the error into a scratch polynomial (`sampler.Read(buf)`),
// possibly transforms it in place (NTT, MForm) and adds it to the component. If the same draw is added to a second
// component before the buffer is drawn again, the two components carry the same error and their difference is
// error-free (for public-key encryption this reveals the ephemeral secret). The rule follows each sampled buffer
// along go/cfg (intersection at joins, so only additions that lie on one path are counted) and reports the second
// distinct destination of an additive ring operation that takes the buffer as a source since its last draw.
func scanErrReuse(c *core.Ctx) []ob {
	var out []ob
	n := 0
	c.FuncDecls(func(pk *packages.Package, file *ast.File, fd *ast.FuncDecl) {
		if fd.Body == nil || fileIsTestSupport(c.Program, fd.Pos()) || inExamples(pk) {
			return
		}
		info := pk.TypesInfo
		// buffers drawn by a non-uniform sampler
		drawn := map[string]bool{}
		isDraw := func(call *ast.CallExpr) (string, bool) {
			sel, ok := unparen(call.Fun).(*ast.SelectorExpr)
			if !ok || sel.Sel.Name != "Read" || len(call.Args) != 1 {
				return "", false
			}
			rt := info.TypeOf(sel.X)
			if rt == nil || !isSamplerType(rt) {
				return "", false
			}
			if n := namedOf(deref(rt)); n != nil && strings.Contains(n.Obj().Name(), "Uniform") {
				return "", false
			}
			low := strings.ToLower(exprString(sel.X))
			if strings.Contains(low, "uniform") || strings.Contains(low, "crp") || strings.Contains(low, "crs") {
				return "", false
			}
			if !polyish(info.TypeOf(call.Args[0])) {
				return "", false
			}
			return exprString(call.Args[0]), true
		}
		ast.Inspect(fd.Body, func(x ast.Node) bool {
			if call, ok := x.(*ast.CallExpr); ok {
				if b, ok := isDraw(call); ok {
					drawn[b] = true
				}
			}
			return true
		})
		if len(drawn) == 0 {
			return
		}
		n++
		fkey := core.FuncKey(pk, fd)
		type st map[string]map[string]token.Pos // buffer -> destinations since last draw
		clone := func(s st) st {
			r := st{}
			for k, m := range s {
				r[k] = map[string]token.Pos{}
				for d, p := range m {
					r[k][d] = p
				}
			}
			return r
		}
		type viol struct {
			buf, d1, d2 string
			pos         token.Pos
		}
		var viols []viol
		step := func(nd ast.Node, s st, record bool) st {
			calls := callsIn(nd)
			if len(calls) == 0 {
				return s
			}
			s = clone(s)
			for _, call := range calls {
				if b, ok := isDraw(call); ok {
					s[b] = map[string]token.Pos{}
					continue
				}
				sel, ok := unparen(call.Fun).(*ast.SelectorExpr)
				if !ok || len(call.Args) < 2 {
					continue
				}
				rt := info.TypeOf(sel.X)
				if rt == nil || !isRingLikeRecv(rt) {
					continue
				}
				nm := sel.Sel.Name
				if !(strings.HasPrefix(nm, "Add") || strings.HasPrefix(nm, "Sub")) {
					continue
				}
				dst := exprString(call.Args[len(call.Args)-1])
				for _, a := range call.Args[:len(call.Args)-1] {
					b := exprString(a)
					if !drawn[b] || b == dst {
						continue
					}
					m, live := s[b]
					if !live {
						continue
					}
					for d, _ := range m {
						if d != dst && record {
							viols = append(viols, viol{b, d, dst, call.Pos()})
						}
					}
					m[dst] = call.Pos()
				}
			}
			return s
		}
		g := buildCFG(info, fd.Body)
		in := forward(g, st{}, nil,
			func(nd ast.Node, s st) st { return step(nd, s, false) },
			func(a, b st) st {
				r := st{}
				for k, ma := range a {
					mb, ok := b[k]
					if !ok {
						continue
					}
					r[k] = map[string]token.Pos{}
					for d, p := range ma {
						if _, ok := mb[d]; ok {
							r[k][d] = p
						}
					}
				}
				return r
			},
			func(a, b st) bool {
				if len(a) != len(b) {
					return false
				}
				for k, ma := range a {
					mb, ok := b[k]
					if !ok || len(ma) != len(mb) {
						return false
					}
					for d := range ma {
						if _, ok := mb[d]; !ok {
							return false
						}
					}
				}
				return true
			})
		for _, b := range g.Blocks {
			s, ok := in[b]
			if !ok {
				continue
			}
			for _, nd := range b.Nodes {
				s = step(nd, s, true)
			}
		}
		key := "ERRREUSE:" + fkey
		if len(viols) == 0 {
			out = append(out, okOb("ERRREUSE", key, c.Rel(fd.Pos()), "every sampled error buffer is added to at most one destination per draw", true))
			return
		}
		v := viols[0]
		out = append(out, violOb("ERRREUSE", key+"#"+v.buf, c.Rel(v.pos), fmt.Sprintf("%s adds the error drawn into %s to %s and then, without drawing again, to %s at %s: the two components carry the same error, so their combination is noise-free", fkey, v.buf, v.d1, v.d2, c.Rel(v.pos))))
	})
	c.Stats["errreuse_funcs"] = n
	return out
}

func init() {
	core.Register(&core.Rule{Name: "ERRREUSE", Props: []string{"C03", "C14", "C16"},
		Doc: "an error drawn from a (non-uniform) sampler into a scratch polynomial is added to at most one destination before the buffer is drawn again (go/cfg, intersection at joins)",
		Run: func(c *core.Ctx) []ob {
			out := scanErrReuse(c)
			out = append(out, core.Floor("ERRREUSE", nil, "functions drawing an error into a buffer", c.Stats["errreuse_funcs"], 8)...)
			out = append(out, control(c, "ERRREUSE", scanErrReuse, "(emitter).twice")...)
			return out
		}})
}

// MONTERR — the error of an encryption is brought to the representation of the ciphertext.
//
// A ciphertext's metadata says whether its polynomials are in the NTT domain and whether they are in Montgomery form.
// An encryption routine that adapts its work to `ct.IsNTT` has to adapt the sampled error to `ct.IsMontgomery` as
// well: an error left in plain form inside a Montgomery-form ciphertext is an error multiplied by 2^-64 mod q, one
// converted unconditionally inside a plain-form target is multiplied by 2^64 — noise of the size of q either way.
func scanMontErr(c *core.Ctx) []ob {
	var out []ob
	n := 0
	c.FuncDecls(func(pk *packages.Package, file *ast.File, fd *ast.FuncDecl) {
		rel := core.ShortPkg(pk.PkgPath)
		if fd.Body == nil || fileIsTestSupport(c.Program, fd.Pos()) || !(c.IsFixture || rel == "core/rlwe" || rel == "core/rgsw") {
			return
		}
		if !strings.Contains(core.RecvTypeName(fd), "Encryptor") && !c.IsFixture {
			return
		}
		info := pk.TypesInfo
		readsErr, usesNTT, usesMont, mform := false, false, false, false
		ast.Inspect(fd.Body, func(x ast.Node) bool {
			switch v := x.(type) {
			case *ast.CallExpr:
				if sel, ok := unparen(v.Fun).(*ast.SelectorExpr); ok {
					if t := info.TypeOf(sel.X); t != nil && isSamplerType(t) && (sel.Sel.Name == "Read" || sel.Sel.Name == "ReadAndAdd") {
						low := strings.ToLower(exprString(sel.X))
						if strings.Contains(low, "xe") || strings.Contains(low, "err") || strings.Contains(low, "noise") || strings.Contains(low, "gauss") {
							readsErr = true
						}
					}
					if sel.Sel.Name == "MForm" {
						mform = true
					}
				}
			case *ast.SelectorExpr:
				if v.Sel.Name == "IsNTT" {
					usesNTT = true
				}
				if v.Sel.Name == "IsMontgomery" {
					usesMont = true
				}
			}
			return true
		})
		if !readsErr || !usesNTT {
			return
		}
		n++
		fkey := core.FuncKey(pk, fd)
		key := "MONTERR:" + fkey
		if usesMont {
			out = append(out, okOb("MONTERR", key, c.Rel(fd.Pos()), "the Montgomery flag of the target is consulted", true))
		} else if mform {
			out = append(out, violOb("MONTERR", key, c.Rel(fd.Pos()), fmt.Sprintf("%s adapts to the NTT flag of the ciphertext it fills but converts the sampled error to Montgomery form whatever its Montgomery flag says: for a target declared in plain form (IsMontgomery=false) the error is multiplied by 2^64 mod q, i.e. noise of the size of the modulus", fkey)))
		} else {
			out = append(out, violOb("MONTERR", key, c.Rel(fd.Pos()), fmt.Sprintf("%s adapts to the NTT flag of the ciphertext it fills but never looks at its Montgomery flag nor converts the sampled error with MForm: for a ciphertext declared in Montgomery form the error is added in plain form, which decrypts as noise of the size of the modulus", fkey)))
		}
	})
	c.Stats["monterr_funcs"] = n
	return out
}

func init() {
	core.Register(&core.Rule{Name: "MONTERR", Props: []string{"C03", "C20"},
		Doc: "an encryptor routine that samples an error and adapts to the NTT flag of the ciphertext it fills also consults its Montgomery flag, or converts the error with MForm",
		Run: func(c *core.Ctx) []ob {
			out := scanMontErr(c)
			out = append(out, core.Floor("MONTERR", nil, "flag-adapting encryption routines", c.Stats["monterr_funcs"], 3)...)
			out = append(out, control(c, "MONTERR", scanMontErr, "(emitter).fill")...)
			return out
		}})
}
