package rules

import (
	"go/ast"
	"go/token"

	"golang.org/x/tools/go/ast/astutil"

	"lvcheck/internal/core"
)

// Normalisation of the syntax trees before any rule runs.
//
// Many rules ask "is this statement under a condition that …" or "does the function refuse … with an error" and look
// for if statements. A tagless switch is only another spelling of an if / else-if chain, and eight rounds of
// behaviour-preserving rewrites showed it to be the most frequent reason for a rule to lose sight of a guard. Every
// tagless switch without init statement, without fallthrough and without a `break` that targets it is therefore
// replaced, in the trees the rules see, by the equivalent chain (same condition expressions, same statement nodes, the
// position of `case` for the `if`), once, before the rules run. Clauses with several expressions become one `||`.

func switchBreaks(cc *ast.CaseClause) bool {
	found := false
	var walk func(n ast.Node, inner bool)
	walk = func(n ast.Node, inner bool) {
		ast.Inspect(n, func(x ast.Node) bool {
			if found || x == nil {
				return false
			}
			switch v := x.(type) {
			case *ast.FuncLit:
				return false
			case *ast.ForStmt, *ast.RangeStmt, *ast.SwitchStmt, *ast.TypeSwitchStmt, *ast.SelectStmt:
				if x != n {
					return false // a break inside targets that statement
				}
			case *ast.BranchStmt:
				if v.Tok == token.BREAK && v.Label == nil {
					found = true
				}
				if v.Tok == token.FALLTHROUGH {
					found = true
				}
			}
			return true
		})
	}
	for _, st := range cc.Body {
		walk(st, false)
	}
	return found
}

func switchAsIfChain(s *ast.SwitchStmt, typesOf func(e ast.Expr, like ast.Expr)) ast.Stmt {
	if s.Tag != nil || s.Init != nil || s.Body == nil || len(s.Body.List) == 0 {
		return nil
	}
	var clauses []*ast.CaseClause
	var deflt *ast.CaseClause
	for _, cl := range s.Body.List {
		cc, ok := cl.(*ast.CaseClause)
		if !ok || switchBreaks(cc) {
			return nil
		}
		if cc.List == nil {
			deflt = cc
			// a default that is not last changes nothing for a tagless switch without fallthrough
		} else {
			clauses = append(clauses, cc)
		}
	}
	if len(clauses) == 0 {
		return nil
	}
	var tail ast.Stmt
	if deflt != nil {
		tail = &ast.BlockStmt{Lbrace: deflt.Colon, List: deflt.Body, Rbrace: deflt.End()}
	}
	for i := len(clauses) - 1; i >= 0; i-- {
		cc := clauses[i]
		cond := cc.List[0]
		for _, e := range cc.List[1:] {
			or := &ast.BinaryExpr{X: cond, OpPos: e.Pos(), Op: token.LOR, Y: e}
			typesOf(or, cond)
			cond = or
		}
		n := &ast.IfStmt{If: cc.Case, Cond: cond, Body: &ast.BlockStmt{Lbrace: cc.Colon, List: cc.Body, Rbrace: cc.End()}}
		if tail != nil {
			n.Else = tail
		}
		tail = n
	}
	return tail
}

func init() {
	core.PreRun = append(core.PreRun, func(p *core.Program) {
		for _, pk := range p.Pkgs {
			info := pk.TypesInfo
			typesOf := func(e ast.Expr, like ast.Expr) {
				if info != nil {
					if tv, ok := info.Types[like]; ok {
						tv.Value = nil
						info.Types[e] = tv
					}
				}
			}
			for _, f := range pk.Syntax {
				astutil.Apply(f, nil, func(cur *astutil.Cursor) bool {
					s, ok := cur.Node().(*ast.SwitchStmt)
					if !ok {
						return true
					}
					// only where a statement list holds it (not as the body of a labelled statement)
					if cur.Index() < 0 {
						return true
					}
					if chain := switchAsIfChain(s, typesOf); chain != nil {
						cur.Replace(chain)
					}
					return true
				})
			}
		}
	})
}
