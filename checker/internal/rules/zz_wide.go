package rules

import "lvcheck/internal/core"

// Rules whose obligations carry per-construct property tags (metaProps, bufProps, cloneProps, ...). See core.Rule.Wide.
func init() {
	wide := map[string]bool{"LEVELMOD": true, "LEVELUSE": true, "LEVELIDX": true, "DEADMETA": true, "METASHARE": true, "OUTLEVEL": true,
		"DEGLOOP": true, "RANGEIDX": true, "ALIASHAZ": true, "METAOUT": true, "OUTREAD": true, "BUFSTATE": true, "BUFALIAS": true,
		"FIRSTITER": true, "OUTPARAMW": true, "CLONE": true, "LOSTSTORE": true, "SHARED": true, "COPYF": true, "CTORAGREE": true,
		"READONLY": true, "JAG": true, "LAZYRED": true, "ERRDROP": true, "KEYGET": true, "FWDNEW": true, "LOOPACC": true, "NOISE": true,
		"ERRREUSE": true, "RINGPNIL": true, "GUARD": true, "AGGSYM": true, "IMMUT": true, "IMMUTX": true,
		"KERNELLEN": true, "CROSSLAZY": true, "NEGBOUND": true, "STRIDEGRID": true, "CEILLOG": true}
	for _, r := range core.Registry {
		if wide[r.Name] {
			r.Wide = true
		}
	}
}
