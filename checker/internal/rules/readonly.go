package rules

import (
	"fmt"
	"go/ast"
	"go/types"
	"os"
	"sort"
	"strings"

	"golang.org/x/tools/go/packages"

	"lvcheck/internal/core"
)

// READONLY — precomputed tables are written by their constructor only.
//
// The fields listed below hold constants that are computed once when the object is built (Lagrange coefficients,
// the Montgomery representation of one, NTT twiddle factors, basis-extension constants, encoder roots, sampler
// probability matrices) and that every later call — and every shallow copy, which shares them — reads. A method
// that stores through one of them (directly, through a local view such as `prod := cmb.one`, or by passing it as
// the destination operand of a ring operation) corrupts every later use and every copy.
//
// The table is frozen: each entry was confirmed by reading the type (no method writes it on the pinned tree and the
// documentation or the code of the constructor shows it is derived from the parameters alone). The rule demands
// that each entry still names a field (so a rename cannot make the rule vacuous) and that no method of the type
// other than a constructor stores through it.
var readonlyFields = map[string]string{
	"multiparty.Combiner.one":                           "Montgomery form of 1, the neutral element every GenAdditiveShare starts its Lagrange product from",
	"multiparty.Combiner.lagrangeCoeffs":                "per-party Lagrange factors computed by NewCombiner; reused by every GenAdditiveShare call",
	"ring.SubRing.NTTTable":                             "NTT twiddle factors (RootsForward/RootsBackward/NInv) generated once by generateNTTConstants",
	"ring.SubRing.Factors":                              "factorisation of Modulus-1, derived from the modulus",
	"ring.SubRing.BRedConstant":                         "Barrett constant of the modulus",
	"ring.Ring.SubRings":                                "the chain of sub-rings; AtLevel copies the header and shares the slice",
	"ring.Ring.ModulusAtLevel":                          "products of the moduli per level, shared by every AtLevel view",
	"ring.Ring.RescaleConstants":                        "q_l^-1 mod q_i table used by DivRoundByLastModulus",
	"ring.BasisExtender.constantsQtoP":                  "precomputed basis-extension constants per level",
	"ring.BasisExtender.constantsPtoQ":                  "precomputed basis-extension constants per level",
	"ring.BasisExtender.modDownConstantsPtoQ":           "P^-1 mod q_i per level",
	"ring.BasisExtender.modDownConstantsQtoP":           "Q^-1 mod p_j per level",
	"ring.Decomposer.ModUpConstants":                    "gadget-decomposition basis-extension constants",
	"ring.TernarySampler.matrixProba":                   "probability matrix derived from the distribution parameter",
	"ring.TernarySampler.matrixValues":                  "{0,1,-1} in Montgomery form per modulus",
	"schemes/ckks.Encoder.roots":                        "2N-th roots of unity used by the encoding FFT",
	"schemes/ckks.Encoder.rotGroup":                     "powers of 5 mod 2N (slot permutation)",
	"schemes/bgv.Encoder.indexMatrix":                   "slot <-> coefficient permutation",
	"schemes/bgv.Evaluator.tMontgomery":                 "plaintext modulus in Montgomery RNS form (shared by ShallowCopy)",
	"schemes/bgv.Evaluator.levelQMul":                   "number of extension moduli per level for the BFV tensoring",
	"schemes/bgv.Evaluator.pHalf":                       "QMul/2 per level, used by the BFV quantisation (shared by ShallowCopy)",
	"circuits/ckks/bootstrapping.Evaluator.xPow2N1":     "powers of X used by the ring-degree switch before bootstrapping",
	"circuits/ckks/bootstrapping.Evaluator.xPow2N2":     "powers of X used by the ring-degree switch before bootstrapping",
	"circuits/ckks/bootstrapping.Evaluator.xPow2InvN1":  "inverse powers of X used by the ring-degree switch",
	"circuits/ckks/bootstrapping.Evaluator.xPow2InvN2":  "inverse powers of X used by the ring-degree switch",
	"core/rgsw/blindrot.Evaluator.galoisGenDiscreteLog": "discrete logarithms of the Galois generator, computed once",
}

// readonlyWriters: methods that are part of construction although their name does not say so.
var readonlyWriters = map[string]string{
	"ring.(Ring).ConjugateInvariantRing":         "derived-ring constructor: fills the freshly allocated SubRings of the copy it returns",
	"ring.(Ring).StandardRing":                   "derived-ring constructor: fills the freshly allocated SubRings of the copy it returns",
	"ring.(SubRing).generateNTTConstants":        "called by NewSubRing/NewRing only; fills RootsForward/RootsBackward",
	"ring.(Ring).generateNTTConstants":           "construction step of NewRing",
	"ring.(TernarySampler).initializeMatrix":     "construction step of NewTernarySampler",
	"ring.(TernarySampler).computeMatrixTernary": "construction step of NewTernarySampler",
}

func scanReadOnly(c *core.Ctx) []ob {
	var out []ob
	debug := os.Getenv("LV_DEBUG_READONLY") != ""
	// resolve the table
	want := map[string]map[string]bool{} // "pkg.Type" -> fields
	for k := range readonlyFields {
		i := strings.LastIndex(k, ".")
		tk := k[:i]
		if want[tk] == nil {
			want[tk] = map[string]bool{}
		}
		want[tk][k[i+1:]] = true
	}
	exists := map[string]bool{}
	bad := map[string][]string{}
	nMeth := 0
	c.FuncDecls(func(pk *packages.Package, file *ast.File, fd *ast.FuncDecl) {
		if fd.Recv == nil || fd.Body == nil || fileIsTestSupport(c.Program, fd.Pos()) {
			return
		}
		info := pk.TypesInfo
		named, ptrRecv := core.RecvNamed(info, fd)
		recv := recvObj(info, fd)
		if named == nil || recv == nil {
			return
		}
		tk := core.ShortPkg(pk.PkgPath) + "." + named.Origin().Obj().Name()
		fields := want[tk]
		if fields == nil && !debug {
			return
		}
		for f := range fields {
			if o, _, _ := types.LookupFieldOrMethod(named, true, pk.Types, f); o != nil {
				if v, ok := o.(*types.Var); ok && v.IsField() {
					exists[tk+"."+f] = true
				}
			}
		}
		fkey := core.FuncKey(pk, fd)
		if isCtorName(fd.Name.Name) || readonlyWriters[fkey] != "" {
			return
		}
		// a helper that is only ever called (transitively) from constructors is part of construction
		if fn, ok := info.Defs[fd.Name].(*types.Func); ok && constructionOnly(c.Program)[fn] {
			return
		}
		nMeth++
		aliases := localAliasesMode(info, fd, true)
		for _, w := range collectWrites(info, fd.Body) {
			for _, r := range rootsOfWrite(info, w, aliases) {
				if r.obj != recv || r.field == "" {
					continue
				}
				if w.how == "assignment" && !r.deref && !ptrRecv {
					continue // a value receiver's own header
				}
				if debug {
					fmt.Fprintf(os.Stderr, "READONLY-DEBUG fields=%v mut %s.%s by %s (%s)\n", fields, tk, r.field, fkey, w.how)
				}
				hit := ""
				if fields[r.field] {
					hit = r.field
				} else {
					// a promoted field: eval.pHalf is recorded as .evaluatorBase.pHalf
					for _, seg := range strings.FieldsFunc(r.path, func(c rune) bool { return c == '.' || c == '[' || c == ']' }) {
						if fields[seg] {
							hit = seg
							break
						}
					}
				}
				if hit == "" {
					continue
				}
				k := tk + "." + hit
				bad[k] = append(bad[k], fmt.Sprintf("%s stores through %s at %s (%s)", fkey, exprString(w.target), c.Rel(w.pos), w.how))
			}
		}
	})
	keys := make([]string, 0, len(readonlyFields))
	for k := range readonlyFields {
		keys = append(keys, k)
	}
	sort.Strings(keys)
	for _, k := range keys {
		key := "READONLY:" + k
		props := readonlyProps(k)
		switch {
		case !exists[k] && !c.IsFixture:
			out = append(out, withProps(incOb("READONLY", key, "", "the table names a field that no longer exists on a type with methods: the rule would be vacuous; update the table"), props...))
		case len(bad[k]) > 0:
			sort.Strings(bad[k])
			out = append(out, withProps(violOb("READONLY", key, strings.SplitN(strings.SplitN(bad[k][0], " at ", 2)[1], " ", 2)[0],
				fmt.Sprintf("%s is a table computed at construction (%s) and shared by every copy, but %s", k, readonlyFields[k], strings.Join(bad[k], "; "))), props...))
		case exists[k]:
			out = append(out, withProps(okOb("READONLY", key, "", "no method other than a constructor stores through the field (directly, through a local view or as a ring-operation destination)", true), props...))
		}
	}
	c.Stats["readonly_methods"] = nMeth
	return out
}

func readonlyProps(k string) []string {
	switch {
	case strings.HasPrefix(k, "multiparty.Combiner"):
		return []string{"C15"}
	case strings.HasPrefix(k, "ring.SubRing"), strings.HasPrefix(k, "ring.Ring"):
		return []string{"C01"}
	case strings.HasPrefix(k, "ring.BasisExtender"), strings.HasPrefix(k, "ring.Decomposer"):
		return []string{"C02"}
	case strings.HasPrefix(k, "ring.TernarySampler"):
		return []string{"C17"}
	case strings.Contains(k, "Encoder"):
		return []string{"C07"}
	case strings.HasPrefix(k, "schemes/bgv.Evaluator"):
		return []string{"C05"}
	case strings.Contains(k, "bootstrapping"):
		return []string{"C18"}
	case strings.Contains(k, "blindrot"):
		return []string{"C20"}
	}
	return nil
}

func init() {
	all := []string{"C01", "C02", "C05", "C07", "C15", "C17", "C18", "C20"}
	core.Register(&core.Rule{Name: "READONLY", Props: all,
		Doc: "fields of a frozen table of precomputed constants (Lagrange coefficients, NTT roots, basis-extension constants, encoder roots, sampler matrices) are stored through by constructors only: no method writes them directly, through a local view, or as the destination of a ring operation",
		Run: func(c *core.Ctx) []ob {
			out := scanReadOnly(c)
			out = append(out, control(c, "READONLY", scanReadOnlyFixture, "internal/lvfixture.Table.consts")...)
			return out
		}})
}

// scanReadOnlyFixture runs the rule over the fixture with the fixture's own table entry.
func scanReadOnlyFixture(c *core.Ctx) []ob {
	saved := readonlyFields
	readonlyFields = map[string]string{"internal/lvfixture.Table.consts": "fixture"}
	defer func() { readonlyFields = saved }()
	return scanReadOnly(c)
}

// constructionOnly: functions all of whose (static) callers are constructors, documented construction steps, or
// themselves construction-only. Extracting part of a constructor into a helper does not make the helper a mutator.
var constructionOnlyCache = map[*core.Program]map[*types.Func]bool{}

func constructionOnly(p *core.Program) map[*types.Func]bool {
	if m, ok := constructionOnlyCache[p]; ok {
		return m
	}
	callers := map[*types.Func]map[*types.Func]bool{}
	ctor := map[*types.Func]bool{}
	all := map[*types.Func]bool{}
	p.FuncDecls(func(pk *packages.Package, file *ast.File, fd *ast.FuncDecl) {
		if fd.Body == nil || fileIsTestSupport(p, fd.Pos()) || inExamples(pk) {
			return
		}
		f, _ := pk.TypesInfo.Defs[fd.Name].(*types.Func)
		if f == nil {
			return
		}
		all[f] = true
		if isCtorName(fd.Name.Name) || readonlyWriters[core.FuncKey(pk, fd)] != "" {
			ctor[f] = true
		}
		ast.Inspect(fd.Body, func(x ast.Node) bool {
			if call, ok := x.(*ast.CallExpr); ok {
				if g := calleeFunc(pk.TypesInfo, call); g != nil {
					g = funcOrigin(g)
					if callers[g] == nil {
						callers[g] = map[*types.Func]bool{}
					}
					callers[g][f] = true
				}
			}
			// a method value or function reference escapes: anything may call it
			if id, ok := x.(*ast.Ident); ok {
				if g, ok := pk.TypesInfo.Uses[id].(*types.Func); ok {
					g = funcOrigin(g)
					if callers[g] == nil {
						callers[g] = map[*types.Func]bool{}
					}
				}
			}
			return true
		})
	})
	res := map[*types.Func]bool{}
	for changed := true; changed; {
		changed = false
		for f := range all {
			if res[f] || ctor[f] || f.Exported() {
				continue
			}
			cs := callers[f]
			if len(cs) == 0 {
				continue
			}
			ok := true
			for g := range cs {
				if !ctor[g] && !res[g] {
					ok = false
				}
			}
			if ok {
				res[f] = true
				changed = true
			}
		}
	}
	constructionOnlyCache[p] = res
	return res
}
