package rules

import (
	"fmt"
	"go/ast"
	"go/token"
	"go/types"
	"strings"

	"golang.org/x/tools/go/packages"

	"lvcheck/internal/core"
)

// BOUNDM — bound-method fields in copies. If a func-typed field of T is ever assigned a method value bound to
// an instance of T (x.f = x.method), a copy constructor that copies the field from its receiver makes the copy
// call methods on the original; it must rebind.
//
// PERMOD — one sampled integer, consistent across moduli. In the Gaussian and ternary samplers the loop over the
// moduli that stores the residues of one sampled coefficient must not draw randomness: the value stored for
// modulus j is then a function of the single (magnitude, sign) pair sampled outside the loop.
//
// RETAIN — a keyed generator owns its key: no function of utils/sampling stores a slice parameter into a field
// without copying it (the caller may reuse or wipe its buffer; Reset must replay the original stream).

func scanBoundM(c *core.Ctx) []ob {
	var out []ob
	// fields holding bound method values
	bound := map[*types.Var]token.Pos{}
	c.FuncDecls(func(pk *packages.Package, file *ast.File, fd *ast.FuncDecl) {
		info := pk.TypesInfo
		ast.Inspect(fd.Body, func(n ast.Node) bool {
			as, ok := n.(*ast.AssignStmt)
			if !ok || len(as.Lhs) != len(as.Rhs) {
				return true
			}
			for i, l := range as.Lhs {
				ls, ok := unparen(l).(*ast.SelectorExpr)
				if !ok {
					continue
				}
				lsel := info.Selections[ls]
				if lsel == nil || lsel.Kind() != types.FieldVal {
					continue
				}
				rs, ok := unparen(as.Rhs[i]).(*ast.SelectorExpr)
				if !ok {
					continue
				}
				if rsel := info.Selections[rs]; rsel != nil && rsel.Kind() == types.MethodVal {
					bound[lsel.Obj().(*types.Var).Origin()] = as.Pos()
				}
			}
			return true
		})
	})
	n := 0
	for _, cc := range findCopyCtors(c.Program) {
		info := cc.pk.TypesInfo
		recv := recvObj(info, cc.fd)
		fkey := core.FuncKey(cc.pk, cc.fd)
		props := copyfProps(core.ShortPkg(cc.pk.PkgPath), cc.named.Obj().Name())
		for i := 0; i < cc.st.NumFields(); i++ {
			f := cc.st.Field(i)
			bp, isBound := bound[f.Origin()]
			if !isBound {
				continue
			}
			n++
			key := fmt.Sprintf("BOUNDM:%s#field=%s", fkey, f.Name())
			// how does the copy constructor initialise f ?
			copied := token.NoPos
			ast.Inspect(cc.fd.Body, func(nd ast.Node) bool {
				var val ast.Expr
				switch x := nd.(type) {
				case *ast.KeyValueExpr:
					if k, ok := x.Key.(*ast.Ident); ok && k.Name == f.Name() {
						val = x.Value
					}
				case *ast.AssignStmt:
					for j, l := range x.Lhs {
						if s, ok := unparen(l).(*ast.SelectorExpr); ok && s.Sel.Name == f.Name() && j < len(x.Rhs) {
							val = x.Rhs[j]
						}
					}
				}
				if val != nil {
					if s, ok := unparen(val).(*ast.SelectorExpr); ok && recv != nil && identObj(info, s.X) == recv {
						if sel := info.Selections[s]; sel != nil && sel.Kind() == types.FieldVal {
							copied = val.Pos()
						}
					}
				}
				return true
			})
			// whole-struct copies of a value receiver also carry the binding
			if copied == token.NoPos {
				for _, b := range analyseCopyCtor(c.Program, cc) {
					if b.all {
						rebinds := false
						ast.Inspect(cc.fd.Body, func(nd ast.Node) bool {
							if as, ok := nd.(*ast.AssignStmt); ok {
								for _, l := range as.Lhs {
									if s, ok := unparen(l).(*ast.SelectorExpr); ok && s.Sel.Name == f.Name() {
										rebinds = true
									}
								}
							}
							return true
						})
						if !rebinds {
							copied = b.pos
						}
					}
				}
			}
			if copied != token.NoPos {
				out = append(out, withProps(violOb("BOUNDM", key, c.Rel(copied), fmt.Sprintf("%s copies the func field %s from its receiver, but that field holds a method value bound to the instance it was created on (%s): the copy keeps calling the original's method (wrong level, ring or buffers)", fkey, f.Name(), c.Rel(bp))), props...))
			} else {
				out = append(out, withProps(okOb("BOUNDM", key, c.Rel(cc.fd.Pos()), "bound-method field is rebound (or not copied) by the copy constructor", true), props...))
			}
		}
	}
	c.Stats["boundm_fields"] = n
	return out
}

var randomnessCalls = map[string]bool{"Read": true, "normFloat64": true, "randInt32": true, "randInt64": true, "kysampling": true, "RandInt": true, "RandUniform": true, "randFloat64": true}

func scanPerMod(c *core.Ctx) []ob {
	var out []ob
	pk := c.Pkg("ring")
	if pk == nil || c.IsFixture {
		return nil
	}
	info := pk.TypesInfo
	n := 0
	for _, f := range pk.Syntax {
		fname := c.RelFile(f.Pos())
		if !strings.HasSuffix(fname, "sampler_gaussian.go") && !strings.HasSuffix(fname, "sampler_ternary.go") {
			continue
		}
		for _, d := range f.Decls {
			fd, ok := d.(*ast.FuncDecl)
			if !ok || fd.Body == nil {
				continue
			}
			fkey := core.FuncKey(pk, fd)
			ord := 0
			ast.Inspect(fd.Body, func(nd ast.Node) bool {
				rs, ok := nd.(*ast.RangeStmt)
				if !ok {
					return true
				}
				// a loop over the moduli: ranges over a []uint64 named moduli / ModuliChain / Qi
				x := exprString(rs.X)
				if !(strings.Contains(strings.ToLower(x), "moduli") || strings.Contains(x, "SubRings")) {
					return true
				}
				// that stores into coefficients
				stores := false
				ast.Inspect(rs.Body, func(m ast.Node) bool {
					if as, ok := m.(*ast.AssignStmt); ok {
						for _, l := range as.Lhs {
							if _, ok := unparen(l).(*ast.IndexExpr); ok {
								stores = true
							}
						}
					}
					return true
				})
				if !stores {
					return true
				}
				ord++
				n++
				key := fmt.Sprintf("PERMOD:%s#modloop%d", fkey, ord)
				bad := ""
				ast.Inspect(rs.Body, func(m ast.Node) bool {
					if call, ok := m.(*ast.CallExpr); ok {
						name := ""
						switch fn := unparen(call.Fun).(type) {
						case *ast.SelectorExpr:
							name = fn.Sel.Name
							if name == "Read" {
								if t := info.TypeOf(fn.X); t == nil || !(strings.Contains(t.String(), "PRNG") || strings.Contains(t.String(), "Reader")) {
									name = ""
								}
							}
						case *ast.Ident:
							name = fn.Name
						}
						if randomnessCalls[name] {
							bad = fmt.Sprintf("%s at %s", name, c.Rel(call.Pos()))
						}
					}
					return true
				})
				if bad != "" {
					out = append(out, violOb("PERMOD", key, c.Rel(rs.Pos()), fmt.Sprintf("%s draws randomness (%s) inside the loop over the moduli: the residues stored for one coefficient no longer represent one integer consistently across the RNS moduli", fkey, bad)))
				} else {
					out = append(out, okOb("PERMOD", key, c.Rel(rs.Pos()), "the per-modulus loop stores residues of a value sampled outside it", true))
				}
				return true
			})
		}
	}
	c.Stats["permod_loops"] = n
	return out
}

func scanRetain(c *core.Ctx) []ob {
	var out []ob
	pk := c.Pkg("utils/sampling")
	if pk == nil || c.IsFixture {
		return nil
	}
	info := pk.TypesInfo
	n := 0
	for _, f := range pk.Syntax {
		for _, d := range f.Decls {
			fd, ok := d.(*ast.FuncDecl)
			if !ok || fd.Body == nil {
				continue
			}
			params, _ := paramMap(info, fd)
			for po := range params {
				if _, isSlice := po.Type().Underlying().(*types.Slice); !isSlice {
					continue
				}
				n++
				key := fmt.Sprintf("RETAIN:%s#%s", core.FuncKey(pk, fd), po.Name())
				var bad token.Pos
				ast.Inspect(fd.Body, func(nd ast.Node) bool {
					as, ok := nd.(*ast.AssignStmt)
					if !ok || len(as.Lhs) != len(as.Rhs) {
						return true
					}
					for i, l := range as.Lhs {
						if s, ok := unparen(l).(*ast.SelectorExpr); ok {
							if sel := info.Selections[s]; sel != nil && sel.Kind() == types.FieldVal && identObj(info, as.Rhs[i]) == po {
								bad = as.Pos()
							}
						}
					}
					return true
				})
				if bad != token.NoPos {
					out = append(out, violOb("RETAIN", key, c.Rel(bad), fmt.Sprintf("%s keeps the caller's slice %s in a field without copying it: if the caller reuses or wipes the buffer the generator's notion of its key changes under it", core.FuncKey(pk, fd), po.Name())))
				} else {
					out = append(out, okOb("RETAIN", key, c.Rel(fd.Pos()), "slice parameter is not retained", true))
				}
			}
		}
	}
	c.Stats["retain_params"] = n
	return out
}

func init() {
	core.Register(&core.Rule{Name: "BOUNDM", Props: []string{"C17", "C10"},
		Doc: "a func-typed field that is ever assigned a method value bound to an instance is not copied from the receiver by a copy constructor (it must be rebound to the new instance)",
		Run: func(c *core.Ctx) []ob {
			out := scanBoundM(c)
			for i := range out {
				out[i].Props = []string{"C17", "C10"}
			}
			for _, o := range core.Floor("BOUNDM", nil, "bound-method fields in copy constructors", c.Stats["boundm_fields"], 1) {
				out = append(out, withProps(o, "C17", "C10"))
			}
			return out
		}})
	core.Register(&core.Rule{Name: "PERMOD", Props: []string{"C17"},
		Doc: "in the Gaussian and ternary samplers no randomness is drawn inside a loop over the moduli that stores coefficient residues",
		Run: func(c *core.Ctx) []ob {
			out := scanPerMod(c)
			out = append(out, core.Floor("PERMOD", nil, "per-modulus store loops", c.Stats["permod_loops"], 3)...)
			return out
		}})
	core.Register(&core.Rule{Name: "RETAIN", Props: []string{"C17"},
		Doc: "no function of utils/sampling stores a slice parameter into a struct field without copying it",
		Run: func(c *core.Ctx) []ob {
			out := scanRetain(c)
			out = append(out, core.Floor("RETAIN", nil, "slice parameters", c.Stats["retain_params"], 2)...)
			return out
		}})
}

// ---- PRNGBUF
//
// Re-keying a sampler (`WithPRNG`) must start from an empty buffer of random bytes: bytes already drawn from the old
// generator and the read position belong to the old stream. A WithPRNG method that takes from its receiver a field
// holding buffered bytes (a struct with a []byte, directly or through a pointer) makes the re-keyed sampler emit
// leftovers of the old generator — two samplers given the same key then disagree — and lets the copy and the original
// consume each other's bytes.
func holdsBytes(t types.Type, depth int) bool {
	if depth > 3 || t == nil {
		return false
	}
	switch u := deref(t).Underlying().(type) {
	case *types.Slice:
		if b, ok := u.Elem().Underlying().(*types.Basic); ok && b.Kind() == types.Uint8 {
			return true
		}
	case *types.Struct:
		for i := 0; i < u.NumFields(); i++ {
			if holdsBytes(u.Field(i).Type(), depth+1) {
				return true
			}
		}
	}
	return false
}

func scanPRNGBuf(c *core.Ctx) []ob {
	var out []ob
	n := 0
	c.FuncDecls(func(pk *packages.Package, file *ast.File, fd *ast.FuncDecl) {
		if fd.Recv == nil || fd.Body == nil || fd.Name.Name != "WithPRNG" || fileIsTestSupport(c.Program, fd.Pos()) {
			return
		}
		info := pk.TypesInfo
		recv := recvObj(info, fd)
		named, _ := core.RecvNamed(info, fd)
		if recv == nil || named == nil {
			return
		}
		st := structOf(named)
		if st == nil {
			return
		}
		fkey := core.FuncKey(pk, fd)
		for i := 0; i < st.NumFields(); i++ {
			f := st.Field(i)
			if !holdsBytes(f.Type(), 0) {
				continue
			}
			// samplers nested in the receiver are re-keyed by their own WithPRNG
			if nt := namedOf(f.Type()); nt != nil && strings.HasSuffix(nt.Obj().Name(), "Sampler") {
				continue
			}
			n++
			key := fmt.Sprintf("PRNGBUF:%s#%s", fkey, f.Name())
			carried := token.NoPos
			ast.Inspect(fd.Body, func(x ast.Node) bool {
				switch v := x.(type) {
				case *ast.KeyValueExpr:
					if k, ok := v.Key.(*ast.Ident); ok && k.Name == f.Name() {
						if sel, ok := unparen(v.Value).(*ast.SelectorExpr); ok && sel.Sel.Name == f.Name() {
							if id, ok := unparen(sel.X).(*ast.Ident); ok && info.Uses[id] == recv {
								carried = v.Pos()
							}
						}
					}
				case *ast.AssignStmt:
					for j, l := range v.Lhs {
						if ls, ok := unparen(l).(*ast.SelectorExpr); ok && ls.Sel.Name == f.Name() && j < len(v.Rhs) {
							if sel, ok := unparen(v.Rhs[j]).(*ast.SelectorExpr); ok && sel.Sel.Name == f.Name() {
								if id, ok := unparen(sel.X).(*ast.Ident); ok && info.Uses[id] == recv {
									carried = v.Pos()
								}
							}
						}
					}
				}
				return true
			})
			if carried == token.NoPos {
				out = append(out, okOb("PRNGBUF", key, c.Rel(fd.Pos()), "not taken from the receiver", true))
			} else {
				out = append(out, violOb("PRNGBUF", key, c.Rel(carried), fmt.Sprintf("%s takes %s, which holds bytes already drawn from the previous generator and the read position, from its receiver: the re-keyed sampler emits leftovers of the old stream and shares its buffer with the original", fkey, f.Name())))
			}
		}
	})
	c.Stats["prngbuf_fields"] = n
	return out
}

func init() {
	core.Register(&core.Rule{Name: "PRNGBUF", Props: []string{"C17", "C10"},
		Doc: "a WithPRNG method does not take from its receiver a field that holds buffered random bytes (it allocates a fresh buffer for the new generator)",
		Run: func(c *core.Ctx) []ob {
			out := scanPRNGBuf(c)
			out = append(out, core.Floor("PRNGBUF", nil, "byte-buffer fields of re-keyable samplers", c.Stats["prngbuf_fields"], 1)...)
			out = append(out, control(c, "PRNGBUF", scanPRNGBuf, "(bufSampler).WithPRNG")...)
			return out
		}})
}
