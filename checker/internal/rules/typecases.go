package rules

import (
	"fmt"
	"go/ast"
	"go/types"
	"strings"

	"golang.org/x/tools/go/packages"

	"lvcheck/internal/core"
)

// TYPECASES — the operand types an operation accepts are accepted by the helper it forwards them to.
//
// The evaluators take `rlwe.Operand` / `interface{}` arguments and dispatch on the dynamic type; the clause for the
// scalar types (`case complex128, float64, int, int64, uint, uint64, *big.Int, ...:`) keeps the value as an interface
// and forwards it to a conversion helper (bignum.ToComplex, ...) that dispatches again and panics or fails in its
// default clause. Every type listed in the forwarding clause must be handled by the helper: a type the operation
// documents and lists, but the helper does not know, is a run-time panic for that operand type only.
//
// Rule: for every call, inside a type-switch clause listing two or more types, that passes the switched variable to a
// function of the module whose body type-switches on the receiving parameter with a failing (panic / error) or absent
// default: each listed type is identical to a type of some clause of the callee, or implements an interface type
// listed there.

type tcSwitch struct {
	types []types.Type
	open  bool // has a default clause that does not fail
	pos   string
}

func tcCalleeSwitch(p *core.Program, pk *packages.Package, fd *ast.FuncDecl, param types.Object) *tcSwitch {
	info := pk.TypesInfo
	var res *tcSwitch
	// only a switch that every call goes through: a direct statement of the body
	for _, top := range fd.Body.List {
		if res != nil {
			break
		}
		ts, ok := top.(*ast.TypeSwitchStmt)
		if !ok {
			continue
		}
		func() bool {
			var x ast.Expr
			switch a := ts.Assign.(type) {
			case *ast.AssignStmt:
				if len(a.Rhs) == 1 {
					if ta, ok := unparen(a.Rhs[0]).(*ast.TypeAssertExpr); ok {
						x = ta.X
					}
				}
			case *ast.ExprStmt:
				if ta, ok := unparen(a.X).(*ast.TypeAssertExpr); ok {
					x = ta.X
				}
			}
			if x == nil || identObj(info, x) != param {
				return true
			}
			sw := &tcSwitch{pos: p.Rel(ts.Pos())}
			hasDefault := false
			for _, st := range ts.Body.List {
				cc := st.(*ast.CaseClause)
				if cc.List == nil {
					hasDefault = true
					fails := false
					for _, s := range cc.Body {
						switch y := s.(type) {
						case *ast.ExprStmt:
							if call, ok := y.X.(*ast.CallExpr); ok {
								if id, ok := call.Fun.(*ast.Ident); ok && id.Name == "panic" {
									fails = true
								}
							}
						case *ast.ReturnStmt:
							if len(y.Results) > 0 {
								last := y.Results[len(y.Results)-1]
								if tv, ok := info.Types[last]; ok && isErrorType(tv.Type) && !isNilIdent(last) {
									fails = true
								}
							}
						}
					}
					if !fails {
						sw.open = true
					}
					continue
				}
				for _, e := range cc.List {
					if tv, ok := info.Types[e]; ok && tv.IsType() {
						sw.types = append(sw.types, tv.Type)
					}
				}
			}
			if !hasDefault {
				sw.open = true // no default: the other types fall through, nothing fails here
			}
			res = sw
			return false
		}()
	}
	return res
}

func scanTypeCases(c *core.Ctx) []ob {
	var out []ob
	n := 0
	// declarations by function object
	type declT struct {
		pk *packages.Package
		fd *ast.FuncDecl
	}
	decls := map[*types.Func]declT{}
	c.FuncDecls(func(pk *packages.Package, file *ast.File, fd *ast.FuncDecl) {
		if fd.Body == nil {
			return
		}
		if fn, ok := pk.TypesInfo.Defs[fd.Name].(*types.Func); ok {
			decls[funcOrigin(fn)] = declT{pk, fd}
		}
	})
	c.FuncDecls(func(pk *packages.Package, file *ast.File, fd *ast.FuncDecl) {
		if fd.Body == nil || fileIsTestSupport(c.Program, fd.Pos()) || inExamples(pk) {
			return
		}
		info := pk.TypesInfo
		fkey := core.FuncKey(pk, fd)
		ast.Inspect(fd.Body, func(x ast.Node) bool {
			ts, ok := x.(*ast.TypeSwitchStmt)
			if !ok {
				return true
			}
			for _, st := range ts.Body.List {
				cc := st.(*ast.CaseClause)
				if len(cc.List) < 2 {
					continue
				}
				v := info.Implicits[cc] // the per-clause variable (interface-typed here)
				if v == nil {
					continue
				}
				var listed []types.Type
				for _, e := range cc.List {
					if tv, ok := info.Types[e]; ok && tv.IsType() {
						listed = append(listed, tv.Type)
					}
				}
				seenCallee := map[*types.Func]bool{}
				for _, s := range cc.Body {
					ast.Inspect(s, func(y ast.Node) bool {
						if _, ok := y.(*ast.TypeSwitchStmt); ok {
							return false // a nested switch narrows the type again
						}
						call, ok := y.(*ast.CallExpr)
						if !ok {
							return true
						}
						f := calleeFunc(info, call)
						if f == nil || f.Pkg() == nil || !strings.HasPrefix(f.Pkg().Path(), core.ModPath) {
							return true
						}
						fo := funcOrigin(f)
						d, ok := decls[fo]
						if !ok || seenCallee[fo] {
							return true
						}
						sig := fo.Type().(*types.Signature)
						for ai, a := range call.Args {
							if identObj(info, a) != v || ai >= sig.Params().Len() {
								continue
							}
							sw := tcCalleeSwitch(c.Program, d.pk, d.fd, sig.Params().At(ai))
							if sw == nil {
								continue
							}
							seenCallee[fo] = true
							n++
							key := fmt.Sprintf("TYPECASES:%s->%s#%s", fkey, fo.Name(), v.Name())
							var missing []string
							if !sw.open {
								for _, lt := range listed {
									covered := false
									for _, ct := range sw.types {
										if types.Identical(lt, ct) {
											covered = true
										} else if it, ok := ct.Underlying().(*types.Interface); ok && types.Implements(lt, it) {
											covered = true
										}
									}
									if !covered {
										missing = append(missing, types.TypeString(lt, func(p *types.Package) string { return p.Name() }))
									}
								}
							}
							if len(missing) > 0 {
								out = append(out, withProps(violOb("TYPECASES", key, c.Rel(call.Pos()),
									fmt.Sprintf("%s accepts an operand of type %s in the clause at %s and forwards it to %s, whose type switch at %s has no case for it and fails in its default clause: the operation panics or errors for that documented operand type", fkey, strings.Join(missing, ", "), c.Rel(cc.Pos()), fo.Name(), sw.pos)), tcProps(fkey)...))
							} else {
								out = append(out, withProps(okOb("TYPECASES", key, c.Rel(call.Pos()), fmt.Sprintf("all %d listed operand types are handled by %s", len(listed), fo.Name()), true), tcProps(fkey)...))
							}
						}
						return true
					})
				}
			}
			return true
		})
	})
	c.Stats["typecases_sites"] = n
	return out
}

func tcProps(fkey string) []string {
	switch {
	case strings.HasPrefix(fkey, "schemes/ckks"):
		return []string{"C06"}
	case strings.HasPrefix(fkey, "schemes/bgv"):
		return []string{"C05"}
	case strings.Contains(fkey, "polynomial"):
		return []string{"C13"}
	case strings.Contains(fkey, "lintrans"):
		return []string{"C12"}
	case strings.Contains(fkey, "encoder") || strings.Contains(fkey, "Encoder"):
		return []string{"C07"}
	}
	return []string{"C06", "C05"}
}

func init() {
	core.Register(&core.Rule{Name: "TYPECASES", Props: []string{"C05", "C06", "C07", "C12", "C13"},
		Doc: "every operand type listed in a multi-type clause of a type switch that forwards the operand to a module helper is handled by the helper's own type switch on it (identical type, or an interface it implements), when the helper's default clause panics or returns an error",
		Run: func(c *core.Ctx) []ob {
			out := scanTypeCases(c)
			out = append(out, control(c, "TYPECASES", scanTypeCases, "lvfixture.acceptNum->toFloat")...)
			out = append(out, core.Floor("TYPECASES", nil, "forwarding clauses checked against a helper's switch", c.Stats["typecases_sites"], 4)...)
			return out
		}})
}
