package rules

import (
	"fmt"
	"strings"

	"lvcheck/internal/core"
)

// Positive controls. A rule whose expected finding count on the repository is zero would pass
// vacuously if its recogniser silently stopped matching. Each such rule is therefore also run, on
// every invocation, over a small synthetic package (type-checked against the very packages loaded
// from /repo) that contains one known-bad instance per rule; the control obligation is discharged
// only if the rule reports that instance.

const fixtureSrc = `package lvfixture

import (
	"bufio"
	"encoding/json"
	"fmt"
	"io"
	"math"
	"math/big"

	"github.com/tuneinsight/lattigo/v6/core/rlwe"
	"github.com/tuneinsight/lattigo/v6/ring"
	"github.com/tuneinsight/lattigo/v6/utils"
	"github.com/tuneinsight/lattigo/v6/utils/buffer"
	"github.com/tuneinsight/lattigo/v6/utils/sampling"
)

// NOISE control: the non-NTT path emits c0 without any error
type emitter struct {
	xe ring.Sampler
	r  *ring.Ring
}

func newEmitter(prng sampling.PRNG, r *ring.Ring, p rlwe.Parameters) *emitter {
	xe, _ := ring.NewSampler(prng, r, p.Xe(), false)
	return &emitter{xe: xe, r: r}
}

func (e *emitter) emit(sk, a ring.Poly, out *rlwe.Ciphertext, ntt bool) {
	c0 := out.Value[0]
	e.r.MulCoeffsMontgomery(a, sk, c0)
	if ntt {
		e.xe.Read(out.Value[1])
		e.r.Add(c0, out.Value[1], c0)
	} else {
		e.r.INTT(c0, c0)
	}
}

// MONTERR control: adapts to the NTT flag only
func (e *emitter) fill(ct *rlwe.Ciphertext) {
	e.xe.Read(ct.Value[0])
	if ct.IsNTT {
		e.r.NTT(ct.Value[0], ct.Value[0])
	}
}

// ERRREUSE control: one draw masks both components
func (e *emitter) twice(buf ring.Poly, out *rlwe.Ciphertext) {
	e.xe.Read(buf)
	e.r.NTT(buf, buf)
	e.r.Add(out.Value[0], buf, out.Value[0])
	e.r.Add(out.Value[1], buf, out.Value[1])
}

// SECTAB control: 120 bits of modulus at LogN=12 (table row: 109)
var BadParamsN12QP109 = rlwe.ParametersLiteral{LogN: 12, LogQ: []int{60, 60}}

type Thing struct {
	A    uint64
	B    *uint64
	Flag bool
	M    map[uint64]uint64
	tmp  []uint64
	conf int
	tmp8 *[8]byte
}

// SHORTREAD control
func (t *Thing) readRaw(r io.Reader) error {
	p := make([]byte, 8)
	if _, err := r.Read(p); err != nil {
		return err
	}
	t.A = uint64(p[0])
	return nil
}

// FLUSH / NCOUNT / ERRPROP controls
func (t Thing) WriteTo(w io.Writer) (n int64, err error) {
	switch w := w.(type) {
	case buffer.Writer:
		var inc int64
		if inc, err = buffer.WriteUint64(w, t.A); err != nil {
			return n + inc, err
		}
		n += inc
		if t.B != nil {
			if inc, err = buffer.WriteUint8(w, 1); err != nil {
				return n + inc, err
			}
			inc, err = buffer.WriteUint64(w, *t.B)
			if inc, err = buffer.WriteUint64(w, *t.B); err != nil {
				return n + inc, err
			}
			n += inc
			return n, w.Flush()
		}
		return
	default:
		return t.WriteTo(bufio.NewWriter(w))
	}
}

// DEFASSIGN / OKFLAG / TAINTALLOC controls
func (t *Thing) ReadFrom(r io.Reader) (n int64, err error) {
	switch r := r.(type) {
	case buffer.Reader:
		var inc int64
		if inc, err = buffer.ReadUint64(r, &t.A); err != nil {
			return n + inc, err
		}
		n += inc
		var has uint8
		if inc, err = buffer.ReadUint8(r, &has); err != nil {
			return n + inc, err
		}
		n += inc
		if has == 1 {
			t.B = new(uint64)
			if inc, err = buffer.ReadUint64(r, t.B); err != nil {
				return n + inc, err
			}
			n += inc
			t.Flag = true
		}
		var size uint32
		if inc, err = buffer.ReadUint32(r, &size); err != nil {
			return n + inc, err
		}
		n += inc
		t.tmp = make([]uint64, size)
		for i := 0; i < int(size); i++ {
			t.M[uint64(i)] = 1
		}
		return n, nil
	default:
		return t.ReadFrom(bufio.NewReader(r))
	}
}

// RECVPTR control
func (t Thing) UnmarshalBinary(p []byte) error { return nil }

func (t *Thing) UnmarshalJSON(p []byte) error {
	x, ok := new(big.Int).SetString(string(p), 0)
	t.A = x.Uint64()
	if !ok {
		return fmt.Errorf("bad")
	}
	return nil
}

// COPYF control
func (t Thing) ShallowCopy() *Thing {
	return &Thing{A: t.A, B: t.B, Flag: t.Flag, M: t.M, tmp: make([]uint64, len(t.tmp))}
}

func (t *Thing) useConf() int { return t.conf }

// LOSTSTORE control: the new value is installed in the private copy of the receiver, not in the returned object
func (t Thing) WithConf(conf int) *Thing {
	cp := t.ShallowCopy()
	t.conf = conf
	return cp
}

// LAZYINIT control: the map allocated here never reaches the caller's object
func (t Thing) remember(k uint64) {
	if t.M == nil {
		t.M = map[uint64]uint64{}
	}
	t.M[k] = k
}

// PEEKRETAIN control: the object keeps a window into the reader's buffer
func (t *Thing) readSeed(r *bufio.Reader) error {
	seed, err := r.Peek(8)
	if err != nil {
		return err
	}
	t.tmp8 = (*[8]byte)(seed)
	_, err = r.Discard(8)
	return err
}

// CODECSEQ control: the reader takes the two words in the other order
type Pair struct{ A, B uint64 }

func (p Pair) WriteTo(w io.Writer) (n int64, err error) {
	bw := bufio.NewWriter(w)
	var inc int64
	if inc, err = buffer.WriteUint64(bw, p.A); err != nil {
		return n + inc, err
	}
	n += inc
	if inc, err = buffer.WriteUint64(bw, p.B); err != nil {
		return n + inc, err
	}
	return n + inc, bw.Flush()
}

func (p *Pair) ReadFrom(r io.Reader) (n int64, err error) {
	br := bufio.NewReader(r)
	var inc int64
	if inc, err = buffer.ReadUint64(br, &p.B); err != nil {
		return n + inc, err
	}
	n += inc
	if inc, err = buffer.ReadUint64(br, &p.A); err != nil {
		return n + inc, err
	}
	return n + inc, nil
}

// FIELDUNSET control: nothing ever assigns k
type Unset struct{ k []byte }

func (u *Unset) Key() []byte { return u.k }

// CTORSIB control: only one of the two constructors keeps the key
type Gen struct {
	key []byte
	n   int
}

func NewGenRandom() *Gen { return &Gen{key: []byte{1, 2, 3}, n: 3} }
func NewGenKeyed(key []byte) *Gen {
	g := new(Gen)
	g.n = len(key)
	return g
}
func (g *Gen) Key() []byte { return append([]byte{}, g.key...) }
func (g *Gen) Len() int    { return g.n }

// DEEPCOPY control: a "deep" copy that is a value copy
func (t Thing) CopyNew() *Thing { return &t }

// SAMPLEF control: the empty positions are overwritten whatever f is
func sampleBad(pol ring.Poly, f func(a, b, c uint64) uint64) {
	coeffs := pol.Coeffs
	coeffs[0][0] = f(coeffs[0][0], 1, 97)
	coeffs[0][1] = 0
}

// PRNGBUF control: the re-keyed sampler keeps the old buffer
type bufSampler struct {
	prng sampling.PRNG
	buf  []byte
}

func (s *bufSampler) WithPRNG(p sampling.PRNG) *bufSampler { return &bufSampler{prng: p, buf: s.buf} }

// FLAGORDER control: the decoding step comes after the transform
type xform struct {
	Decode bool
	Func   func([]uint64)
	Encode bool
}

func applyX(t *xform, v []uint64) {
	t.Func(v)
	if t.Decode {
		for i := range v {
			v[i]++
		}
	}
}

// ENCRED control: raw values go straight into the transform
func encodeRaw(r *ring.Ring, values interface{}, pT ring.Poly) {
	pt := pT.Coeffs[0]
	switch values := values.(type) {
	case []uint64:
		copy(pt, values)
	}
	r.INTT(pT, pT)
}

// SHARED control: ShallowCopy shares the map M, which put() stores through
func (t *Thing) put(k uint64) { t.M[k] = k }

// IMMUT control: an "evaluator" that scales its first operand in place
type fixEvaluator struct{ r *ring.Ring }

func (e fixEvaluator) AddScaled(op0, op1, opOut *rlwe.Ciphertext) {
	e.r.MulScalar(op0.Value[0], 3, op0.Value[0])
	e.r.Add(op0.Value[0], op1.Value[0], opOut.Value[0])
}

// READONLY control: a method scales the precomputed table through a local view
type Table struct{ consts []uint64 }

func (t *Table) Scale(x []uint64) {
	acc := t.consts
	for i := range x {
		acc[i] *= x[i]
	}
}

// OUTREAD control: the second component of the output is a source before anything wrote it
func (e fixEvaluator) Fold(op0 *rlwe.Ciphertext, opOut *rlwe.Ciphertext) {
	e.r.Add(op0.Value[0], op0.Value[1], opOut.Value[0])
	e.r.Add(op0.Value[1], opOut.Value[1], opOut.Value[1])
}

// CLONE control: the second statement takes its first operand from the output, its sibling from the input
func (e fixEvaluator) Twice(op0, op1, opOut *rlwe.Ciphertext) {
	e.r.Add(op0.Value[0], op1.Value[0], opOut.Value[0])
	e.r.Add(opOut.Value[1], op1.Value[1], opOut.Value[1])
}

// DEADMETA control: the new scale is recorded and then wiped by the metadata copy
func (e fixEvaluator) Halve(op0, opOut *rlwe.Ciphertext) {
	e.r.MulScalar(op0.Value[0], 2, opOut.Value[0])
	opOut.Scale = op0.Scale.Div(rlwe.NewScale(2))
	*opOut.MetaData = *op0.MetaData
}

// LEVELUSE control: the helper is run at the level of the first operand, not at the operation level
func (e fixEvaluator) ScaleAt(op0, op1, opOut *rlwe.Ciphertext) {
	level := opOut.Level()
	e.r.AtLevel(level).Add(op0.Value[0], op1.Value[0], opOut.Value[0])
	e.atLevel(op0.Level(), opOut)
}

func (e fixEvaluator) atLevel(level int, ct *rlwe.Ciphertext) {
	e.r.AtLevel(level).Neg(ct.Value[0], ct.Value[0])
}

// LEVELIDX control: the ring is cut at the input's level, the prime is picked with the output's
func (e fixEvaluator) DropScale(op0, opOut *rlwe.Ciphertext) {
	ringQ := e.r.AtLevel(op0.Level())
	ringQ.DivRoundByLastModulusNTT(op0.Value[0], opOut.Value[1], opOut.Value[0])
	opOut.Scale = op0.Scale.Div(rlwe.NewScale(ringQ.SubRings[opOut.Level()].Modulus))
}

// FIRSTITER control: nothing initialises the sum when every index was filtered out
func (e fixEvaluator) SumSome(ops []*rlwe.Ciphertext, idx []int, opOut *rlwe.Ciphertext) {
	keep := idx
	if len(idx) > 0 && idx[0] == 0 {
		keep = idx[1:]
	}
	for i, k := range keep {
		if i == 0 {
			e.r.Add(ops[k].Value[0], ops[k].Value[1], opOut.Value[0])
		} else {
			e.r.Add(opOut.Value[0], ops[k].Value[0], opOut.Value[0])
		}
	}
}

// BUFSTATE control: the decomposition parked in BuffA is consumed again after scratchy used BuffA[0] as scratch
type bufOwner struct {
	r     *ring.Ring
	BuffA []ring.Poly
}

func (o bufOwner) fill(in ring.Poly, out []ring.Poly) {
	for i := range out {
		o.r.NTT(in, out[i])
	}
}

func (o bufOwner) consume(in []ring.Poly, out ring.Poly) { o.r.Add(in[0], in[1], out) }

func (o bufOwner) scratchy(x, out ring.Poly) {
	tmp := o.BuffA[0]
	o.r.NTT(x, tmp)
	o.r.Add(tmp, x, out)
}

func (o bufOwner) Twice(x, out1, out2 ring.Poly) {
	o.fill(x, o.BuffA)
	o.consume(o.BuffA, out1)
	o.scratchy(x, out1)
	o.consume(o.BuffA, out2)
}

// METASHARE control: the output borrows the operand's metadata and then rescales it
func (e fixEvaluator) Borrow(op0, opOut *rlwe.Ciphertext) {
	opOut.MetaData = op0.MetaData
	e.r.MulScalar(op0.Value[0], 2, opOut.Value[0])
	opOut.Scale = opOut.Scale.Mul(rlwe.NewScale(2))
}

// OUTLEVEL control: the sum is computed at the common level but the output is never cut to it
func (e fixEvaluator) AddAt(op0, op1, opOut *rlwe.Ciphertext) {
	level := utils.Min(utils.Min(op0.Level(), op1.Level()), opOut.Level())
	e.r.AtLevel(level).Add(op0.Value[0], op1.Value[0], opOut.Value[0])
}

// RINGPNIL control: knows that P may be absent, dereferences RingP() anyway
func (e fixEvaluator) BothRings(p rlwe.Parameters, levelP int, x ring.Poly) {
	ringP := p.RingP().AtLevel(levelP)
	if levelP > -1 {
		ringP.NTT(x, x)
	}
}

// RANGEIDX control: the receiver's degree drives the loop over the operand's components
func (e fixEvaluator) Halves(op0, opOut *rlwe.Ciphertext) {
	for i := range opOut.Value {
		e.r.MulScalar(op0.Value[i], 2, opOut.Value[i])
	}
}

// RANGEIDX control, helper form: the loop lives in a helper and no caller relates the degrees
func rangeIdxHelperHalve(r *ring.Ring, src, dst *rlwe.Ciphertext) {
	for i := range dst.Value {
		r.MulScalar(src.Value[i], 2, dst.Value[i])
	}
}

func (e fixEvaluator) HalvesVia(op0, opOut *rlwe.Ciphertext) {
	rangeIdxHelperHalve(e.r, op0, opOut)
}

// ROUNDBITS control: digit count from a rounded logarithm
func digitsVectorSize(q uint64, w int) int {
	return (int(math.Round(math.Log2(float64(q)))) + w - 1) / w
}

// BUFALIAS control: the scratch polynomial becomes the operand
func (o *bufOwner) Park(x ring.Poly) {
	o.BuffA[0] = x
	o.r.NTT(o.BuffA[0], o.BuffA[0])
}

// ALIASHAZ control: out = 2*op0 + op1 computed in two passes; Lin2(a, b, b) reads b after it was overwritten
func (e fixEvaluator) Lin2(op0, op1, opOut *rlwe.Ciphertext) {
	for i := range op0.Value {
		e.r.MulScalar(op0.Value[i], 2, opOut.Value[i])
	}
	for i := range op1.Value {
		e.r.Add(opOut.Value[i], op1.Value[i], opOut.Value[i])
	}
}

// OUTPARAMW control: the second output is never produced
func halfDone(r *ring.Ring, in, aOut, bOut ring.Poly) {
	r.NTT(in, aOut)
}

// RECPROGRESS control: recursion on the tail without checking that something was consumed
func fillAll(r io.Reader, c []byte) (n int, err error) {
	if len(c) == 0 {
		return
	}
	k, err := r.Read(c)
	if err != nil {
		return k, err
	}
	m, err := fillAll(r, c[k:])
	return k + m, err
}

// SIGNBOUND control: the sign is folded in before the bound test
func drawSigned(v, bound *big.Int, sign int64) bool {
	v.Mul(v, big.NewInt(2*sign-1))
	return v.Cmp(bound) < 1
}

// DEADRING control: the transform is computed and thrown away
func (e fixEvaluator) LoseNTT(in, buf ring.Poly) {
	e.r.NTT(in, buf)
	e.r.MForm(in, buf)
}

// DEGLOOP control: the last component is never negated
func (e fixEvaluator) NegHigh(op0, opOut *rlwe.Ciphertext) {
	for i := 1; i < op0.Degree(); i++ {
		e.r.Neg(op0.Value[i], opOut.Value[i])
	}
}

// LEVELMOD control: multiplies by the full modulus although it works at levelP
func (e fixEvaluator) ScaleP(levelP int, p rlwe.Parameters, op0 *rlwe.Ciphertext) {
	e.r.AtLevel(levelP).MulScalarBigint(op0.Value[0], p.RingP().Modulus(), op0.Value[0])
}

// RNSSTORE control: residues are not reduced
// NTTDOM control: for n == 1 the output is a copy of the input in the input's own domain, then leaves the NTT domain again
func (e fixEvaluator) TraceOne(ctIn *rlwe.Ciphertext, n int, opOut *rlwe.Ciphertext) {
	if n == 1 {
		opOut.Value[0].CopyLvl(ctIn.Level(), ctIn.Value[0])
	} else {
		e.r.MulScalar(ctIn.Value[0], uint64(n), opOut.Value[0])
	}
	if !ctIn.IsNTT {
		e.r.INTT(opOut.Value[0], opOut.Value[0])
	}
}

// NTTDOM control (exit): the output takes the input's flag but is moved into the NTT domain when the input is not
func (e fixEvaluator) LeaveNTT(ctIn, opOut *rlwe.Ciphertext) {
	*opOut.MetaData = *ctIn.MetaData
	opOut.Value[0].CopyLvl(ctIn.Level(), ctIn.Value[0])
	if !ctIn.IsNTT {
		e.r.NTT(opOut.Value[0], opOut.Value[0])
	}
}

// CLONE control (dupview): both halves are the same half
func splitBad(buf []byte, n int) (byte, byte) {
	lo := buf[:n]
	hi := buf[:n]
	return lo[0], hi[0]
}

// SIZECOND control: the optional part is counted when non-nil but written when non-empty
type Opt struct {
	Base  uint64
	Extra []byte
}

func (o Opt) BinarySize() (size int) {
	size = 8
	if o.Extra != nil {
		size += len(o.Extra)
	}
	return
}

func (o Opt) WriteTo(w io.Writer) (n int64, err error) {
	b := []byte{byte(o.Base), byte(o.Base >> 8), 0, 0, 0, 0, 0, 0}
	k, err := w.Write(b)
	if err != nil {
		return int64(k), err
	}
	n = int64(k)
	if len(o.Extra) != 0 {
		k, err = w.Write(o.Extra)
		n += int64(k)
	}
	return
}

// ASSERTZERO control: forwards the failed assertion's zero value instead of the operand
func zeroFwd(x interface{}) int {
	var t *Thing
	var ok bool
	if t, ok = x.(*Thing); !ok {
		return t.useConf()
	}
	return 0
}

// SCALEOUT control: the flags are initialised, the values computed, the scale of a distinct receiver never written
func (e fixEvaluator) AddConst(op0 *rlwe.Ciphertext, k uint64, opOut *rlwe.Ciphertext) {
	opOut.IsNTT = op0.IsNTT
	e.r.AddScalar(op0.Value[0], k, opOut.Value[0])
	if op0 != opOut {
		opOut.Value[1].CopyLvl(op0.Level(), op0.Value[1])
	}
}

// TYPECASES control: uint is accepted by the front door and unknown to the helper
func toFloat(v interface{}) float64 {
	switch v := v.(type) {
	case float64:
		return v
	case int:
		return float64(v)
	default:
		panic("unsupported")
	}
}

func acceptNum(x interface{}) float64 {
	switch x := x.(type) {
	case float64, int, uint:
		return toFloat(x)
	}
	return 0
}

// SWAPMIX control: the output scale pairs the original first operand with the swapped second name
func (e fixEvaluator) MulSwap(op0, op1, opOut *rlwe.Ciphertext) {
	var t0, t1 *rlwe.Ciphertext
	if op1 == opOut {
		t0, t1 = op1, op0
	} else {
		t0, t1 = op0, op1
	}
	e.r.MulCoeffsMontgomery(t0.Value[0], t1.Value[0], opOut.Value[0])
	opOut.Scale = op0.Scale.Mul(t1.Scale)
}

// OUTDEG control: components written up to the operand's degree only, the output never resized by the operation
func (e fixEvaluator) SumLow(op0, op1, opOut *rlwe.Ciphertext) {
	for i := 0; i < op0.Degree()+1; i++ {
		e.r.Add(op0.Value[i], op1.Value[i], opOut.Value[i])
	}
	*opOut.MetaData = *op0.MetaData
}

// JSONAUX control: the auxiliary struct has no counterpart for Root, and Flag is decoded but not restored
type Lit struct {
	LogN int
	Root int
	Flag bool
	Xs   ring.DistributionParameters
}

func (p *Lit) UnmarshalJSON(b []byte) (err error) {
	var pl struct {
		LogN int
		Flag bool
		Xs   map[string]interface{}
	}
	if err = json.Unmarshal(b, &pl); err != nil {
		return
	}
	p.LogN = pl.LogN
	if pl.Xs != nil {
		p.Xs, err = ring.ParametersFromMap(pl.Xs)
	}
	return
}

// JSONIFACE control: an interface-typed field left to the default decoder
type Lit2 struct {
	LogN int
	Xe   ring.DistributionParameters
}

func (p *Lit2) UnmarshalBinary(data []byte) error { return json.Unmarshal(data, p) }

// SCALEMUT control: the decoded value is stored into the mantissa the receiver shares with its copies
type scaleBox struct{ s rlwe.Scale }

func (b *scaleBox) Load(v *big.Float) {
	b.s.Value.Set(v)
}

// DECIDX control: the first element of the decoded vector, whatever its length
type vecBox struct {
	vals []uint64
	head uint64
}

func (b *vecBox) ReadFrom(r io.Reader) (n int64, err error) {
	var k [1]byte
	if _, err = io.ReadFull(r, k[:]); err != nil {
		return
	}
	b.vals = make([]uint64, int(k[0]))
	b.head = b.vals[0]
	return 1, nil
}

// NTTLAST control: the last layer follows the alternation
func butterfly(U, V, Psi, twoQ, fourQ, Q, MRedConstant uint64) (uint64, uint64) {
	if U >= fourQ {
		U -= fourQ
	}
	V = ring.MRedLazy(V, Psi, Q, MRedConstant)
	return U + V, U + twoQ - V
}

func nttToyLazy(p2 []uint64, N int, Q, MRedConstant uint64, roots []uint64) {
	twoQ, fourQ := 2*Q, 4*Q
	t := N
	var V uint64
	for m := 1; m < N; m <<= 1 {
		reduce := m&2 == 0
		t >>= 1
		if t >= 2 {
			for i := 0; i < m; i++ {
				j1 := 2 * i * t
				for j := j1; j < j1+t; j++ {
					p2[j], p2[j+t] = butterfly(p2[j], p2[j+t], roots[m+i], twoQ, fourQ, Q, MRedConstant)
				}
			}
		} else {
			for i := 0; i < m; i++ {
				if reduce {
					p2[2*i], p2[2*i+1] = butterfly(p2[2*i], p2[2*i+1], roots[m+i], twoQ, fourQ, Q, MRedConstant)
				} else {
					V = ring.MRedLazy(p2[2*i+1], roots[m+i], Q, MRedConstant)
					p2[2*i], p2[2*i+1] = p2[2*i]+V, p2[2*i]+twoQ-V
				}
			}
		}
	}
}

// NTTSCHED control: the generic and the "fast" implementation of one transform disagree on the twiddle of the last layer
func SchedToy(p1, p2 []uint64, N int, Q, MRedConstant uint64, roots []uint64) {
	if N < 16 {
		schedToyGeneric(p1, p2, N, Q, MRedConstant, roots)
	} else {
		schedToyFast(p1, p2, N, Q, MRedConstant, roots)
	}
}

func schedToyGeneric(p1, p2 []uint64, N int, Q, MRedConstant uint64, roots []uint64) {
	twoQ, fourQ := 2*Q, 4*Q
	t := N >> 1
	for j := 0; j < t; j++ {
		p2[j], p2[j+t] = butterfly(p1[j], p1[j+t], roots[1], twoQ, fourQ, Q, MRedConstant)
	}
	for m := 2; m < N; m <<= 1 {
		t >>= 1
		for i := 0; i < m; i++ {
			j1 := 2 * i * t
			for j := j1; j < j1+t; j++ {
				p2[j], p2[j+t] = butterfly(p2[j], p2[j+t], roots[m+i], twoQ, fourQ, Q, MRedConstant)
			}
		}
	}
}

func schedToyFast(p1, p2 []uint64, N int, Q, MRedConstant uint64, roots []uint64) {
	twoQ, fourQ := 2*Q, 4*Q
	t := N >> 1
	for j := 0; j < t; j++ {
		p2[j], p2[j+t] = butterfly(p1[j], p1[j+t], roots[1], twoQ, fourQ, Q, MRedConstant)
	}
	for m := 2; m < N; m <<= 1 {
		t >>= 1
		h := m
		if t == 1 {
			h = m >> 1
		}
		for i := 0; i < m; i++ {
			j1 := 2 * i * t
			for j := j1; j < j1+t; j++ {
				p2[j], p2[j+t] = butterfly(p2[j], p2[j+t], roots[h+i], twoQ, fourQ, Q, MRedConstant)
			}
		}
	}
}

// GUARDIDX control: the guard looks at the neighbour, the merge takes the partner at distance t
func mergeTree(cts []*rlwe.Ciphertext, t int, merge func(a, b *rlwe.Ciphertext) *rlwe.Ciphertext) {
	for j := 0; j < t; j++ {
		if cts[j] != nil || cts[j+1] != nil {
			cts[j] = merge(cts[j], cts[j+t])
			cts[j+t] = nil
		}
	}
}

// OUTPATH control: the no-op path returns with the metadata copied and nothing else
func (ev *fixEvaluator) RescaleNoop(op0 *rlwe.Ciphertext, nb int, opOut *rlwe.Ciphertext) error {
	*opOut.MetaData = *op0.MetaData
	if nb == 0 {
		return nil
	}
	ev.r.Add(op0.Value[0], op0.Value[0], opOut.Value[0])
	return nil
}

// OUTVIEW control: the result takes the share's coefficients as they are
func switchInto(combined *rlwe.Ciphertext, level int, opOut *rlwe.Ciphertext) {
	opOut.Value[0].CopyLvl(level, combined.Value[0])
	opOut.Value[1] = ring.Poly{Coeffs: combined.Value[1].Coeffs[:level+1]}
}

// FLOATU64 control: the scaled value goes through a saturating conversion
func scaleUpFast(value, scale float64, Q uint64) uint64 {
	return uint64(scale*value+0.5) % Q
}

// OUTLEVEL1 control: computed at the level of the key, the receiver keeps its own
func (ev *fixEvaluator) ProductAtKeyLevel(op0, op1, opOut *rlwe.Ciphertext) {
	levelQ := op1.Level()
	r := ev.r.AtLevel(levelQ)
	r.MulCoeffsMontgomery(op0.Value[0], op1.Value[0], opOut.Value[0])
	r.MulCoeffsMontgomery(op0.Value[1], op1.Value[0], opOut.Value[1])
}

// RESIZECOND control: the receiver is only ever raised
func raiseOnly(ct *rlwe.Ciphertext, pt *rlwe.Plaintext) {
	if ct.Level() < pt.Level() {
		ct.Resize(ct.Degree(), pt.Level())
	}
}

// PEEKSIZE control: the length comes from the stream
func readBlock(r *bufio.Reader, size int) ([]byte, error) {
	b, err := r.Peek(size)
	if err != nil {
		return nil, err
	}
	_, err = r.Discard(size)
	return b, err
}

// ERRSTORE control: the failed product stays in the cache
type powCache struct{ vals map[int]*big.Int }

func mulChecked(a, b *big.Int) (*big.Int, error) {
	if a == nil || b == nil {
		return new(big.Int), fmt.Errorf("nil operand")
	}
	return new(big.Int).Mul(a, b), nil
}

func (p *powCache) Gen(n int) (err error) {
	if p.vals[n], err = mulChecked(p.vals[n/2], p.vals[n-n/2]); err != nil {
		return fmt.Errorf("gen: %w", err)
	}
	return
}

// ALIASRW control: the fold written as two statements reads p1[jx] after p2[jx] has been stored
func foldSplit(p1, p2 []uint64, N int, F uint64) {
	for jx, jy := 1, N-1; jx < (N >> 1); jx, jy = jx+1, jy-1 {
		p2[jx] = p1[jx] + F*p1[jy]
		p2[jy] = p1[jy] + F*p1[jx]
	}
}

// MODSUB control: the digit of a prime of Q is folded modulo P[i] without being reduced by it
func foldDigit(Q, P []uint64, src []uint64, dst [][]uint64, lvl int) {
	for j := range src {
		coeff := src[j]
		pos, neg := uint64(1), uint64(0)
		if coeff >= Q[lvl]>>1 {
			coeff = Q[lvl] - coeff
			pos, neg = 0, 1
		}
		for i := range P {
			dst[i][j] = coeff*pos + (P[i]-coeff)*neg
		}
	}
}

// MULMOD control: the product of two scales modulo t in native arithmetic
func mulScales(a, b, t uint64) uint64 {
	return (a * b) % t
}

// SUBCOPY control: the inner evaluator (scratch memory of its own) is shared by the copies
type innerEval struct{ buf []uint64 }

func (e *innerEval) ShallowCopy() *innerEval { return &innerEval{buf: make([]uint64, len(e.buf))} }

type outerEval struct {
	table []uint64
	inner *innerEval
}

func (e outerEval) ShallowCopy() *outerEval {
	return &outerEval{table: e.table, inner: e.inner}
}

// NORMUSE control: the sign is decided on the raw exponent
func shiftSign(k, n int) (int, bool) {
	shift := ((k % (2 * n)) + 2*n) % (2 * n)
	return shift % n, k < n
}

// SIBDEF control: the NTT variant centres by another constant
func roundHalf(q uint64, x []uint64) {
	half := (q - 1) >> 1
	for i := range x {
		x[i] += half
	}
}

func roundHalfNTT(q uint64, x []uint64) {
	half := (q + 1) >> 1
	for i := range x {
		x[i] += half
	}
}

// CEILLOG control: the head-room of the sum of nParties masks taken as the floor of log2
func minLevelFor(logBound uint, nParties int) float64 {
	return float64(logBound + uint(math.Log2(float64(nParties))))
}

// WORKALIAS control: the tail is copied from the operand instead of its aligned working version
func (e fixEvaluator) AlignThenCopy(c0, opOut *rlwe.Ciphertext, k uint64) {
	var tmp0 *rlwe.Ciphertext
	if k != 1 {
		tmp0 = c0.CopyNew()
		e.r.MulScalar(tmp0.Value[0], k, tmp0.Value[0])
		e.r.MulScalar(tmp0.Value[1], k, tmp0.Value[1])
	} else {
		tmp0 = c0
	}
	e.r.Add(tmp0.Value[0], opOut.Value[0], opOut.Value[0])
	opOut.Value[1].CopyLvl(c0.Level(), c0.Value[1])
}

// PARTIALFILL control: the mapped slots are written, the others keep the previous call's coefficients
type coefTable struct{ vals []uint64 }

func (c coefTable) Pick(mapping [][]int, coeffs []uint64) (vals []uint64) {
	vals = c.vals
	for i, cf := range coeffs {
		for _, j := range mapping[i] {
			vals[j] = cf
		}
	}
	return
}

// PAIRSET control: real inputs set the real parts, the imaginary parts keep the previous call's values
func fillReal(buff [][2]*big.Float, values []float64) {
	for i := range values {
		buff[i][0].SetFloat64(values[i])
	}
}

// OUTALIAS control: the rotation by zero hands the input back
func (e fixEvaluator) RotateMany(ctIn *rlwe.Ciphertext, ks []int, opOut map[int]*rlwe.Ciphertext) {
	for _, k := range ks {
		if k == 0 {
			opOut[k] = ctIn
			continue
		}
		e.r.Add(ctIn.Value[0], ctIn.Value[1], opOut[k].Value[0])
	}
}

// LAZYSUB control: a lazy Montgomery product subtracted from q
func subLazy(x, y, z []uint64, modulus, mredconstant uint64) {
	for i := range x {
		z[i] += modulus - ring.MRedLazy(x[i], y[i], modulus, mredconstant)
	}
}

// LOOPCLOBBER control: the residue kept in buff.Coeffs[0] is overwritten by the first iteration
func spreadResidue(r *ring.Ring, p0, buff, p1 ring.Poly, level int) {
	r.SubRings[level].INTT(p0.Coeffs[level], buff.Coeffs[0])
	for i, s := range r.SubRings[:level] {
		s.NTT(buff.Coeffs[0], buff.Coeffs[i])
		s.Sub(buff.Coeffs[i], p0.Coeffs[i], p1.Coeffs[i])
	}
}

// LOOPALIAS control: one buffer filed under every index
func drawCoeffs(r *ring.Ring, u ring.Sampler, t int) []ring.Poly {
	gen := make([]ring.Poly, t)
	coeff := r.NewPoly()
	for i := 1; i < t; i++ {
		u.Read(coeff)
		gen[i] = coeff
	}
	return gen
}

// POLYOUT control: Horner evaluation that starts from what the output holds
func hornerInto(r *ring.Ring, pol []ring.Poly, pt uint64, p3 ring.Poly) {
	for i := len(pol) - 1; i >= 0; i-- {
		r.MulScalar(p3, pt, p3)
		r.Add(p3, pol[i], p3)
	}
}

// MARGINMAX control: the margin of the last prime only
type marginParams struct{ qi []uint64 }

func (p marginParams) QOverflowMargin(level int) int {
	return int(math.Exp2(64) / float64(p.qi[level]))
}

// STRIDEGRID control: the second half is walked from slots, off the grid for sparse packing
func readHalves(coeffs []uint64, re, im []uint64, maxCols, slots int) {
	gap := maxCols / slots
	for i, idx := 0, 0; i < slots; i, idx = i+1, idx+gap {
		re[i] = coeffs[idx]
	}
	for i, idx := 0, slots; i < slots; i, idx = i+1, idx+gap {
		im[i] = coeffs[idx]
	}
}

// BOUNDSCALE control: the unit normal is compared with the bound
type gaussParams struct{ Sigma, Bound float64 }

type GaussianSamplerFix struct{ xe gaussParams }

func (g *GaussianSamplerFix) draw(norm float64) (uint64, bool) {
	bound := g.xe.Bound
	sigma := g.xe.Sigma
	if norm <= bound {
		return uint64(norm*sigma + 0.5), true
	}
	return 0, false
}

// SIZEDEP control: the auxiliary basis sized from the bit length of Q alone
func auxBasisSize(p rlwe.Parameters) int {
	nbQiMul := (p.RingQ().Modulus().BitLen() + 60) / 61
	return nbQiMul
}

// VECSINGLE control: the constant term read through the single-polynomial accessor although a mapping may be present
type coefGetter struct{}

func (coefGetter) GetSingleCoefficient(p []uint64, k int) uint64 { return p[k] }
func (coefGetter) GetVectorCoefficient(ps [][]uint64, k int) []uint64 {
	r := make([]uint64, len(ps))
	for i := range ps {
		r[i] = ps[i][k]
	}
	return r
}

func constTerm(g coefGetter, ps [][]uint64, mapping map[int][]int) (single uint64, vec []uint64) {
	single = g.GetSingleCoefficient(ps[0], 0)
	if mapping != nil {
		vec = g.GetVectorCoefficient(ps, 0)
	}
	return
}

// VECSINGLE control, flag form: the test is kept in a boolean and the single accessor serves the constant term of both arms
func constTermFlag(g coefGetter, ps [][]uint64, mapping map[int][]int, k int) (single uint64, vec []uint64) {
	isVector := mapping != nil
	coefficient := func(k int) (uint64, []uint64) {
		if isVector && k != 0 {
			return 0, g.GetVectorCoefficient(ps, k)
		}
		return g.GetSingleCoefficient(ps[0], k), nil
	}
	if !isVector {
		return coefficient(k)
	}
	return coefficient(k)
}

// INITIDX control: the accumulator is initialised in iteration 0 only if bit 0 is set
func sumBits(n int, xs []uint64) (acc uint64) {
	for i, j := 0, n; j > 0; i, j = i+1, j>>1 {
		if j&1 == 1 {
			if i == 0 {
				acc = xs[i]
			} else {
				acc += xs[i]
			}
		}
	}
	return
}

// CREDFORM control: a raw input value reduced by one conditional subtraction
func credRaw(c int64, t uint64) uint64 {
	return ring.CRed(uint64(c), t)
}

// KERNELLEN control: half rows handed to the 8-wide kernels whatever the ring degree
func addHalves(r *ring.Ring, p1, p2 ring.Poly, s0, s1 uint64) {
	h := r.N() >> 1
	for i, s := range r.SubRings {
		s.AddScalar(p1.Coeffs[i][:h], s0, p2.Coeffs[i][:h])
		s.AddScalar(p1.Coeffs[i][h:], s1, p2.Coeffs[i][h:])
	}
}

// CROSSLAZY control: the lazily inverse-transformed last residue is transformed under the other primes
func carryLast(r *ring.Ring, p0, buff ring.Poly, level int) {
	r.SubRings[level].INTTLazy(p0.Coeffs[level], buff.Coeffs[0])
	for _, s := range r.SubRings[:level] {
		s.NTTLazy(buff.Coeffs[0], buff.Coeffs[1])
	}
}

// DOCFORM control: the offset has lost its sign
type chebPoly struct {
	Basis int
	A, B  big.Float
}

// changeOfBasis returns the change of basis of the polynomial:
//   - Chebyshev: scalar=2/(b-a), constant = (-a-b)/(b-a).
func (p *chebPoly) changeOfBasis() (scalar, constant *big.Float) {
	const Chebyshev = 1
	switch p.Basis {
	case Chebyshev:
		num := new(big.Float).Sub(&p.B, &p.A)
		scalar = new(big.Float).Quo(new(big.Float).SetInt64(2), num)
		constant = new(big.Float).Add(&p.A, &p.B)
		constant.Quo(constant, num)
	}
	return
}

// DIRMAX control: the hoisting level is the smallest of the list
type ltLevel struct{ LevelQ int }

func hoistLevel(lts []ltLevel, ctLevel int) int {
	levelQ := ctLevel
	for _, lt := range lts {
		levelQ = utils.Min(levelQ, lt.LevelQ)
	}
	return levelQ
}

// PARAMSTORE control: the requested threshold is clamped by the number of other parties
type quorum struct {
	threshold int
	others    []uint64
}

func newQuorum(threshold int, others []uint64) *quorum {
	q := &quorum{others: others}
	q.threshold = min(threshold, len(others))
	return q
}

// NEGBOUND control: without auxiliary modulus the digit loop runs zero times
func digitsOf(levelQ, levelP int, acc []uint64) {
	if levelP > -1 {
		acc[0]++
	} else {
		acc[0] = 0
	}
	for k := 0; k < levelP+1; k++ {
		if k > levelQ {
			break
		}
		acc[k]++
	}
}

// COPYUSE control: the sub-evaluator of the copy is wired to the original's evaluator
type subEval struct{ base *innerEval }

type wiredEval struct {
	inner *innerEval
	sub   *subEval
}

func (e wiredEval) ShallowCopy() *wiredEval {
	in := e.inner.ShallowCopy()
	return &wiredEval{inner: in, sub: &subEval{base: e.inner}}
}

// ROTSIGN control: the identity is dropped with an ordering test, and every negative rotation with it
func rotationsFor(p rlwe.Parameters, batch, n int) []uint64 {
	rotIndex := make(map[int]bool)
	for i := 1; i < n; i <<= 1 {
		k := (n - (n & ((i << 1) - 1))) * batch
		if k > 0 {
			rotIndex[k] = true
		}
	}
	rots := make([]int, 0, len(rotIndex))
	for k := range rotIndex {
		rots = append(rots, k)
	}
	return p.GaloisElements(rots)
}

// FLAGAFTER control: the components are taken out of the NTT domain, the flag is not
func (e fixEvaluator) ToCoeffs(res map[int]*rlwe.Ciphertext, index int) {
	e.r.INTT(res[index].Value[0], res[index].Value[0])
	e.r.INTT(res[index].Value[1], res[index].Value[1])
}

// FIELDNORM control: the raw field is stored after its effective value was computed
type boxLit struct {
	Kind   int
	Angles int
}

func effectiveBox(lit boxLit) (res boxLit) {
	angles := lit.Angles
	if lit.Kind == 2 {
		angles = 0
	}
	res.Kind = lit.Kind + angles
	res.Angles = lit.Angles
	return
}

// DOCINV control: the helper forgets to halve the offset

// tableFor samples g; inputs are normalised with the change of basis (2*x - a - b)/(b-a).
func tableFor(g func(float64) float64, a, b float64) float64 { return g(unscaleBack(0.5, a, b)) }

func unscaleBack(x, a, b float64) float64 {
	return x*(b-a)/2.0 + (b + a)
}

// DELTAPREV control: the last position advances for elements that are skipped
func walkSelected(sel map[int]bool, n int, step func(int)) {
	var last int
	for pos := 0; pos < n; pos++ {
		if sel[pos] {
			step(pos - last)
		}
		last = pos
	}
}

// KERNELUNIQ control: two operations wired to one kernel
type toyRing struct{ q uint64 }

func addtoyvec(a, b []uint64, q uint64)     {}
func addlazytoyvec(a, b []uint64, q uint64) {}

func (t *toyRing) AddToy(a, b []uint64)     { addlazytoyvec(a, b, t.q) }
func (t *toyRing) AddLazyToy(x, y []uint64) { addlazytoyvec(x, y, t.q) }

// MAXLEVP control: the digit size is the parameters' maximum, not the level of the key
type auxParams struct{ p int }

func (a auxParams) PCount() int { return a.p }

func digitProduct(a auxParams, levelP int, split func(levelP, nbPi int)) {
	split(levelP, a.PCount())
}

// CONDIDX control: the sign of the first component decides the rounding of the second
func roundPair(v [][2]float64) {
	for i := range v {
		if v[i][0] >= 0 {
			v[i][1] = v[i][1] + 0.5
		} else {
			v[i][1] = v[i][1] - 0.5
		}
	}
}

// ADVFWD control: the wrapper halves the forwarded count
type wrapParams struct{ rows int }

func RotationsForFold(batch, n int) []int { return []int{batch, n} }

func (w wrapParams) RotationsForFold(batch, n int) []int {
	if n*batch > w.rows {
		return append(RotationsForFold(batch, n>>1), -1)
	}
	return RotationsForFold(batch, n)
}

// ITERACC control: every iteration scales by its own precision only
type iterParams struct{ BootstrappingPrecision []float64 }

func refineAll(it iterParams) []*big.Int {
	var res []*big.Int
	for i := 0; i < len(it.BootstrappingPrecision); i++ {
		logPrec := it.BootstrappingPrecision[i]
		prec := new(big.Int)
		new(big.Float).SetFloat64(math.Exp2(logPrec)).Int(prec)
		res = append(res, prec)
	}
	return res
}

// INDEG control: the first two components of the input, whatever its degree
func (e fixEvaluator) SumTwo(ctIn, opOut *rlwe.Ciphertext) {
	e.r.Add(ctIn.Value[0], ctIn.Value[1], opOut.Value[0])
	*opOut.MetaData = *ctIn.MetaData
}

// NILELEMS control: the scratch vector is allocated but its elements never are
type scratch struct{ buf []*big.Int }

func newScratch(n int) *scratch {
	return &scratch{buf: make([]*big.Int, n)}
}

func (s *scratch) set(i int, v int64) { s.buf[i].SetInt64(v) }

// KEYLEVELP control: the P-level is taken from the QP receiver although a key is at hand
func (e fixEvaluator) SwitchWith(evk *rlwe.EvaluationKey, pk *rlwe.PublicKey) int {
	levelP := pk.LevelP()
	return levelP + evk.LevelQ()
}

// FLAGNEST control: the Montgomery form is only produced for NTT outputs
func (e fixEvaluator) Emit(ct *rlwe.Ciphertext) {
	if ct.IsNTT {
		e.r.NTT(ct.Value[0], ct.Value[0])
		if ct.IsMontgomery {
			e.r.MForm(ct.Value[0], ct.Value[0])
		}
	}
}

// GALMOD control: the inverse of a Galois element modulo 2N instead of NthRoot
func invGal(r *ring.Ring, galEl uint64) uint64 {
	twoN := uint64(r.N() << 1)
	return ring.ModExp(galEl, twoN-1, twoN)
}

// ROTNORM control: keys advertised for the raw indexes
func galoisForDiags(p rlwe.Parameters, diags []int) (galEls []uint64) {
	for _, d := range diags {
		galEls = append(galEls, p.GaloisElement(d))
	}
	return
}

// SIGNZERO control: the sign of the exponent is encoded as the sign of an index that starts at 0
func signedLog(g uint64, n int) map[uint64]int {
	m := map[uint64]int{}
	var pow uint64 = 1
	for i := 0; i < n; i++ {
		m[pow] = i
		m[uint64(4*n)-pow] = -i
		pow *= g
	}
	return m
}

// ZEROCOND control: the negative case tests the index that has not been computed yet
func wrapIndex(i, n int) int {
	var j int
	if i > 0 {
		j = i - n
	} else if j < 0 {
		j = i + n
	}
	return j
}

// NTTDOM control (reread): in place, the second test reads the flag the first block has just set
func (e fixEvaluator) RoundTrip(ctIn, opOut *rlwe.Ciphertext) {
	opOut.Value[0].CopyLvl(ctIn.Level(), ctIn.Value[0])
	if !ctIn.IsNTT {
		e.r.NTT(opOut.Value[0], opOut.Value[0])
		opOut.IsNTT = true
	}
	e.r.MulScalar(opOut.Value[0], 3, opOut.Value[0])
	if !ctIn.IsNTT {
		e.r.INTT(opOut.Value[0], opOut.Value[0])
		opOut.IsNTT = false
	}
}

// RESIZEFIRST control: the second component is viewed before the receiver is given its degree
func (e fixEvaluator) ViewThenResize(op0, opOut *rlwe.Ciphertext) {
	c1 := opOut.Value[1]
	opOut.Resize(1, op0.Level())
	e.r.Add(op0.Value[1], op0.Value[1], c1)
	*opOut.MetaData = *op0.MetaData
}

// RLKFIRST control: the key is looked up after the receiver has been written
type fixRelinEvaluator struct {
	*rlwe.Evaluator
	r *ring.Ring
}

func (e fixRelinEvaluator) MulLate(op0, op1, opOut *rlwe.Ciphertext) (err error) {
	e.r.MulCoeffsMontgomery(op0.Value[0], op1.Value[0], opOut.Value[0])
	if _, err = e.CheckAndGetRelinearizationKey(); err != nil {
		return err
	}
	*opOut.MetaData = *op0.MetaData
	return
}

// EQLEN control: a prefix equals the whole
type seqT []uint64

func (a seqT) Equal(b seqT) bool {
	for i := range a {
		if a[i] != b[i] {
			return false
		}
	}
	return true
}

// LOSTSTORE control (via): the inner pointer method allocates into the value receiver's private copy
type inner struct{ meta *int }

func (in *inner) init() {
	if in.meta == nil {
		in.meta = new(int)
	}
}

type holder struct{ inner }

func (h holder) Fill() { h.inner.init() }

// LOOPSHADOW control: the inner counter hides the outer one
func spread(coeffs []uint64, n, gap int) {
	for j := n - 1; j >= 0; j-- {
		coeffs[j*gap] = coeffs[j]
		for j := 1; j < gap; j++ {
			coeffs[j*gap-j] = 0
		}
	}
}

func rnsBad(r *ring.Ring, v uint64) (rns ring.RNSScalar) {
	rns = make(ring.RNSScalar, r.Level()+1)
	for i := range rns {
		rns[i] = v
	}
	return
}

// SCALARMUL control: powers of the point formed with native multiplication
func powBad(r *ring.Ring, p []ring.Poly, x uint64, out ring.Poly) {
	pow := x
	for i := 1; i < len(p); i++ {
		r.MulScalarThenAdd(p[i], pow, out)
		pow *= x
	}
}

// RNDADVANCE control: the same byte serves every iteration
func rndBad(prng sampling.PRNG, out []uint64) {
	randomBytes := make([]byte, 8)
	if _, err := prng.Read(randomBytes); err != nil {
		panic(err)
	}
	for i := range out {
		out[i] = uint64(randomBytes[0]>>(i&7)) & 1
	}
}

// LANE control: lane 2 reads x[3]
func laneBad(x, y, z *[8]uint64, q uint64) {
	z[0] = x[0] + y[0] + q
	z[1] = x[1] + y[1] + q
	z[2] = x[3] + y[2] + q
	z[3] = x[3] + y[3] + q
	z[4] = x[4] + y[4] + q
	z[5] = x[5] + y[5] + q
	z[6] = x[6] + y[6] + q
	z[7] = x[7] + y[7] + q
}
// QRANGE controls: a kernel that leaves the range its method documents, one whose subtraction can wrap for a lazy operand
type qrSub struct {
	Modulus      uint64
	MRedConstant uint64
}

// MulThenSubLazy evaluates p3 = p3 - p1*p2 (mod modulus) with p3 in range [0, 2*modulus-2].
func (s *qrSub) MulThenSubLazy(p1, p2, p3 []uint64) {
	qrmulthensublazyvec(p1, p2, p3, s.Modulus, s.MRedConstant)
}

func qrmulthensublazyvec(p1, p2, p3 []uint64, modulus, mredconstant uint64) {
	twomodulus := modulus << 1
	for j := 0; j < len(p1); j = j + 2 {
		x, y, z := p1[j:j+2], p2[j:j+2], p3[j:j+2]
		z[0] += twomodulus - ring.MRedLazy(x[0], y[0], modulus, mredconstant)
		z[1] += twomodulus - ring.MRedLazy(x[1], y[1], modulus, mredconstant)
	}
}

// SubTwoModulus evaluates p3 = (p1 + twomodulus - p2) * scalarMont (mod modulus).
func (s *qrSub) SubTwoModulus(p1, p2 []uint64, scalarMont uint64, p3 []uint64) {
	qrsubtwomodulusvec(p1, p2, scalarMont, p3, s.Modulus, s.MRedConstant)
}

func qrsubtwomodulusvec(p1, p2 []uint64, scalarMont uint64, p3 []uint64, modulus, mredconstant uint64) {
	for j := 0; j < len(p1); j = j + 2 {
		x, y, z := p1[j:j+2], p2[j:j+2], p3[j:j+2]
		z[0] = ring.MRed(modulus-y[0]+x[0], scalarMont, modulus, mredconstant)
		z[1] = ring.MRed(modulus-y[1]+x[1], scalarMont, modulus, mredconstant)
	}
}

// SCALEALL control: the accumulator is rescaled in the loop over the operand's components
func accumulateScaled(r *ring.Ring, op0, opOut *rlwe.Ciphertext, c00 ring.Poly, r1 uint64) {
	for i := range op0.Value {
		if r1 != 1 {
			r.MulScalar(opOut.Value[i], r1, opOut.Value[i])
		}
		r.MulCoeffsMontgomeryThenAdd(op0.Value[i], c00, opOut.Value[i])
	}
	opOut.Scale = opOut.Scale.Mul(rlwe.NewScale(r1))
}

// SIBRET control: one sibling keeps the receiver's modulus, the other the operand's
type fxScale struct {
	Value float64
	Mod   *big.Int
}

func (s fxScale) Mul(s1 fxScale) fxScale { return fxScale{Value: s.Value * s1.Value, Mod: s1.Mod} }
func (s fxScale) Div(s1 fxScale) fxScale { return fxScale{Value: s.Value / s1.Value, Mod: s.Mod} }

// PRNGSHARE control: the copy's sampler draws from the receiver's generator
type fxDrawer struct {
	prng sampling.PRNG
	r    *ring.Ring
	u    ring.Sampler
}

func (d fxDrawer) ShallowCopy() *fxDrawer {
	return &fxDrawer{prng: d.prng, r: d.r, u: ring.NewUniformSampler(d.prng, d.r)}
}

// VACGUARD control: the level is compared with the expression it was read from
func checkShareLevel(ct *rlwe.Ciphertext, sk *rlwe.SecretKey) error {
	level := ct.Level()
	if sk.LevelQ() < 0 {
		return fmt.Errorf("empty key")
	}
	if ct.Level() != level {
		return fmt.Errorf("level of the key below the level of the share")
	}
	return nil
}

// NAMEFIELD control: the two accessors answer from each other's component
type fxStage struct{ levels []int }

func (s fxStage) Depth() int { return len(s.levels) }

type fxStages struct {
	EncodeParameters fxStage
	DecodeParameters fxStage
}

func (p fxStages) DepthEncode() int { return p.DecodeParameters.Depth() }
func (p fxStages) DepthDecode() int { return p.DecodeParameters.Depth() }

// SCALEU64 control: the scale is squeezed into 64 bits
func ckksScaleBy(r *ring.Ring, ct *rlwe.Ciphertext, s rlwe.Scale) {
	r.MulScalar(ct.Value[0], s.Uint64(), ct.Value[0])
	ct.Scale = ct.Scale.Mul(s)
}

// LAYOUTSPLIT control: the scalar is split at the current level
type fxQP struct{ RingQ, RingP *ring.Ring }

func (r fxQP) Mul(p ring.Poly, scalar []uint64, pOut ring.Poly) {
	scalarQ, scalarP := scalar[:r.RingQ.Level()+1], scalar[r.RingQ.Level()+1:]
	r.RingQ.MulRNSScalarMontgomery(p, scalarQ, pOut)
	r.RingP.MulRNSScalarMontgomery(p, scalarP, pOut)
}

// MODCARRY control: the sample itself is reduced modulo each prime in turn
func spreadSample(x uint64, moduli []uint64, out []uint64) {
	for j, qi := range moduli {
		if x >= qi {
			x %= qi
		}
		out[j] = x
	}
}

// DIGITMAX control: the digit loop stops at the length of the first row
func fillDigits(m [][]uint64, sizes []int) {
	for j := range m[0] {
		for i := range m {
			if j < sizes[i] {
				m[i][j] = 1
			}
		}
	}
}

// NILSIB control: the constructor tolerates a nil key set, the With method does not
type fxKeyed struct {
	keys  rlwe.EvaluationKeySet
	index map[uint64]bool
}

func NewFxKeyed(keys rlwe.EvaluationKeySet) *fxKeyed {
	k := &fxKeyed{index: map[uint64]bool{}}
	k.keys = keys
	if !utils.IsNil(keys) {
		for _, g := range keys.GetGaloisKeysList() {
			k.index[g] = true
		}
	}
	return k
}

func (k fxKeyed) WithKeys(keys rlwe.EvaluationKeySet) *fxKeyed {
	idx := map[uint64]bool{}
	for _, g := range keys.GetGaloisKeysList() {
		idx[g] = true
	}
	return &fxKeyed{keys: keys, index: idx}
}

// EQFIELDS control: Equal forgets the order
type fxSet struct {
	levels []int
	order  int
}

func (s fxSet) Order() int { return s.order }

func (s fxSet) Equal(o *fxSet) bool {
	if len(s.levels) != len(o.levels) {
		return false
	}
	for i := range s.levels {
		if s.levels[i] != o.levels[i] {
			return false
		}
	}
	return true
}

// ARGCACHE control: the keys of the first call are kept for all later calls
type fxRot struct {
	eval *rlwe.Evaluator
}

func (r *fxRot) Apply(ct *rlwe.Ciphertext, keys rlwe.EvaluationKeySet) {
	if r.eval == nil {
		r.eval = rlwe.NewEvaluator(nil, keys)
	}
	_ = ct
}

// RESLICEGROW control: the polynomial left behind by an earlier shrink is taken back as it is
type fxStack struct{ Value []ring.Poly }

func (s *fxStack) Grow(level int) {
	if n := len(s.Value); n < cap(s.Value) {
		s.Value = s.Value[:n+1]
		s.Value[n].Resize(level)
	}
}

// PARAMMUT control: the coefficients of the shared parameters are scaled in place through a struct copy
type fxPolyParameters struct{ Coeffs []*big.Float }

type fxPolyEval struct{ fxPolyParameters }

func (e fxPolyEval) Scaled(s *big.Float) []*big.Float {
	p := e.fxPolyParameters
	for i := range p.Coeffs {
		p.Coeffs[i].Mul(p.Coeffs[i], s)
	}
	return p.Coeffs
}

// RESCALETARGET control: one rescaling step although the target scale is known
type fxRescaler interface {
	Rescale(a, b *rlwe.Ciphertext) error
	RescaleTo(a *rlwe.Ciphertext, s rlwe.Scale, b *rlwe.Ciphertext) error
}

func ckksSetScale(eval fxRescaler, ct *rlwe.Ciphertext, scale rlwe.Scale) error {
	if err := eval.Rescale(ct, ct); err != nil {
		return err
	}
	ct.Scale = scale
	return nil
}

`

// control runs scan over the fixture and demands a violation whose key contains each of the wanted substrings.
func control(c *core.Ctx, rule string, scan func(*core.Ctx) []ob, wanted ...string) []ob {
	if c.IsFixture {
		return nil
	}
	fp, err := c.CachedFixture("lvfixture", fixtureSrc)
	if err != nil {
		return []ob{incOb(rule, rule+":control", "", "positive-control fixture does not type-check: "+err.Error())}
	}
	fc := &core.Ctx{Program: fp, Tier: c.Tier, Prop: c.Prop}
	obs := scan(fc)
	var out []ob
	for _, w := range wanted {
		found := false
		for _, o := range obs {
			if o.Status == core.Violation && strings.Contains(o.Key, w) {
				found = true
				break
			}
		}
		key := fmt.Sprintf("%s:control(%s)", rule, w)
		if found {
			out = append(out, okOb(rule, key, "", "positive control: the rule reports the known-bad fixture instance", false))
		} else {
			out = append(out, incOb(rule, key, "", "positive control failed: the rule no longer reports the known-bad fixture instance "+w))
		}
	}
	return out
}
