package rules

import (
	"fmt"
	"go/ast"
	"go/token"
	"go/types"
	"sort"
	"strings"

	"golang.org/x/tools/go/packages"

	"lvcheck/internal/core"
)

// DEADMETA — a metadata field written on an element is not wiped by a later whole-metadata copy.
//
// The operations record the scale, the NTT/Montgomery flags and the dimensions of their result on the output's
// MetaData. Many of them first copy the operand's metadata as a whole (`*opOut.MetaData = *op0.MetaData`) and then
// adjust single fields (`opOut.Scale = ...`). In the other order the adjustment is lost: the recorded scale is the
// operand's, and decoding with it gives a wrong value. The rule is a may-analysis over go/cfg: a store to
// X.<metadata field> that can reach a whole store to X's MetaData, with no read of the field (and no call receiving
// X) in between, is a violation.
var metaFieldNames = map[string]bool{"Scale": true, "IsNTT": true, "IsMontgomery": true, "LogDimensions": true, "IsBatched": true}

func isMetaCarrier(t types.Type) bool {
	if t == nil {
		return false
	}
	s := deref(t).String()
	return strings.Contains(s, "rlwe.Ciphertext") || strings.Contains(s, "rlwe.Plaintext") || strings.Contains(s, "rlwe.Element[") || strings.Contains(s, "rlwe.MetaData") || strings.Contains(s, "lvfixture")
}

type dmState map[string]token.Pos

func scanDeadMeta(c *core.Ctx) []ob {
	var out []ob
	nStores := 0
	c.FuncDecls(func(pk *packages.Package, file *ast.File, fd *ast.FuncDecl) {
		if fd.Body == nil || fileIsTestSupport(c.Program, fd.Pos()) || inExamples(pk) {
			return
		}
		info := pk.TypesInfo
		// quick filter: the function has a whole-metadata store
		type wholeStore struct {
			base string
			as   *ast.AssignStmt
		}
		wholeBase := func(l ast.Expr) string {
			l = unparen(l)
			if st, ok := l.(*ast.StarExpr); ok {
				l = unparen(st.X)
			}
			if sel, ok := l.(*ast.SelectorExpr); ok && sel.Sel.Name == "MetaData" {
				return exprString(sel.X)
			}
			return ""
		}
		fieldStore := func(l ast.Expr) (string, string) {
			sel, ok := unparen(l).(*ast.SelectorExpr)
			if !ok || !metaFieldNames[sel.Sel.Name] {
				return "", ""
			}
			x := unparen(sel.X)
			// X.MetaData.F and X.F are the same field
			if s2, ok := x.(*ast.SelectorExpr); ok && s2.Sel.Name == "MetaData" {
				x = s2.X
			}
			if !isMetaCarrier(info.TypeOf(x)) {
				return "", ""
			}
			return exprString(x), sel.Sel.Name
		}
		has := false
		ast.Inspect(fd.Body, func(n ast.Node) bool {
			if as, ok := n.(*ast.AssignStmt); ok {
				for _, l := range as.Lhs {
					if wholeBase(l) != "" {
						has = true
					}
				}
			}
			return true
		})
		fkey := core.FuncKey(pk, fd)
		// count field stores for the floor
		ast.Inspect(fd.Body, func(n ast.Node) bool {
			if as, ok := n.(*ast.AssignStmt); ok {
				for _, l := range as.Lhs {
					if b, _ := fieldStore(l); b != "" {
						nStores++
					}
				}
			}
			return true
		})
		if !has {
			return
		}
		g := buildCFG(info, fd.Body)
		clone := func(s dmState) dmState {
			r := dmState{}
			for k, v := range s {
				r[k] = v
			}
			return r
		}
		type kill struct {
			key      string
			storePos token.Pos
			at       token.Pos
		}
		var kills []kill
		step := func(nd ast.Node, s dmState, record bool) dmState {
			s = clone(s)
			lhs := map[ast.Expr]bool{}
			var as *ast.AssignStmt
			if a, ok := nd.(*ast.AssignStmt); ok {
				as = a
				for _, l := range a.Lhs {
					lhs[unparen(l)] = true
				}
			}
			// reads
			ast.Inspect(nd, func(x ast.Node) bool {
				switch y := x.(type) {
				case *ast.SelectorExpr:
					if lhs[y] {
						// still visit the base (it is read)
						return true
					}
					if b, f := fieldStore(y); b != "" {
						delete(s, b+"|"+f)
					}
					// reading the whole metadata reads every field
					if y.Sel.Name == "MetaData" {
						if as != nil {
							for _, l := range as.Lhs {
								if wholeBase(l) == exprString(y.X) {
									return true // this is the store itself
								}
							}
						}
						for k := range s {
							if strings.HasPrefix(k, exprString(y.X)+"|") {
								delete(s, k)
							}
						}
					}
				case *ast.CallExpr:
					for _, a := range y.Args {
						base := exprString(unparen(a))
						for k := range s {
							if strings.HasPrefix(k, base+"|") {
								delete(s, k)
							}
						}
					}
				case *ast.FuncLit:
					return false
				}
				return true
			})
			if as != nil {
				for _, l := range as.Lhs {
					// the variable now denotes another object (pt := &rlwe.Plaintext{} at the top of a loop body)
					if id, ok := unparen(l).(*ast.Ident); ok {
						for k := range s {
							if strings.HasPrefix(k, id.Name+"|") || strings.HasPrefix(k, id.Name+".") {
								delete(s, k)
							}
						}
					}
					if b := wholeBase(l); b != "" {
						for k, p := range s {
							if strings.HasPrefix(k, b+"|") {
								if record {
									kills = append(kills, kill{k, p, as.Pos()})
								}
								delete(s, k)
							}
						}
					}
					if b, f := fieldStore(l); b != "" {
						s[b+"|"+f] = l.Pos()
					}
				}
			}
			return s
		}
		in := forward(g, dmState{}, nil,
			func(nd ast.Node, s dmState) dmState { return step(nd, s, false) },
			func(a, b dmState) dmState {
				r := clone(a)
				for k, v := range b {
					if _, ok := r[k]; !ok {
						r[k] = v
					}
				}
				return r
			},
			func(a, b dmState) bool {
				if len(a) != len(b) {
					return false
				}
				for k := range a {
					if _, ok := b[k]; !ok {
						return false
					}
				}
				return true
			})
		for _, b := range g.Blocks {
			s, ok := in[b]
			if !ok {
				continue
			}
			for _, nd := range b.Nodes {
				s = step(nd, s, true)
			}
		}
		props := metaProps(fkey)
		if len(kills) == 0 {
			out = append(out, withProps(okOb("DEADMETA", "DEADMETA:"+fkey, c.Rel(fd.Pos()), "no metadata field store is wiped by a later whole-metadata copy", true), props...))
			return
		}
		sort.Slice(kills, func(i, j int) bool { return kills[i].storePos < kills[j].storePos })
		seen := map[string]bool{}
		for _, k := range kills {
			if seen[k.key] {
				continue
			}
			seen[k.key] = true
			parts := strings.SplitN(k.key, "|", 2)
			out = append(out, withProps(violOb("DEADMETA", fmt.Sprintf("DEADMETA:%s#%s.%s", fkey, parts[0], parts[1]), c.Rel(k.at),
				fmt.Sprintf("%s sets %s.%s at %s and then overwrites the whole metadata of %s at %s: the value just recorded is lost and the output carries the operand's %s", fkey, parts[0], parts[1], c.Rel(k.storePos), parts[0], c.Rel(k.at), parts[1])), props...))
		}
	})
	c.Stats["deadmeta_stores"] = nStores
	return out
}

// LEVELUSE — once an operation has fixed its working level, that level is what level-taking callees receive.
//
// Evaluator methods compute the level of the operation once (`level := utils.Min(...)`, the level returned by
// InitOutput*Op, or `level := opOut.Level()`) and perform every ring operation and every scale computation at that
// level. Passing the level of one *input* operand (`ct0.Level()`) to a parameter that takes a level is then wrong as
// soon as the operands are at different levels. The rule looks at functions that define a local named `level` and
// reports call arguments of the form <input parameter>.Level() bound to a callee parameter whose name contains
// "level", unless `level` itself was defined as exactly that expression.
func scanLevelUse(c *core.Ctx) []ob {
	var out []ob
	n := 0
	c.FuncDecls(func(pk *packages.Package, file *ast.File, fd *ast.FuncDecl) {
		rel := core.ShortPkg(pk.PkgPath)
		if fd.Body == nil || fileIsTestSupport(c.Program, fd.Pos()) || !(c.IsFixture || strings.HasPrefix(rel, "schemes/") || strings.HasPrefix(rel, "core/") || strings.HasPrefix(rel, "circuits/")) {
			return
		}
		info := pk.TypesInfo
		fkey := core.FuncKey(pk, fd)
		obj, _ := info.Defs[fd.Name].(*types.Func)
		if obj == nil {
			return
		}
		sig := obj.Type().(*types.Signature)
		inputs := map[types.Object]bool{}
		for i := 0; i < sig.Params().Len(); i++ {
			p := sig.Params().At(i)
			if isOutParamName(p.Name()) {
				continue
			}
			if isMetaCarrier(p.Type()) || strings.Contains(p.Type().String(), "Operand") {
				inputs[p] = true
			}
		}
		if len(inputs) == 0 {
			return
		}
		// definition of the local `level`
		var levelDefs []ast.Expr
		var levelPos token.Pos
		ast.Inspect(fd.Body, func(x ast.Node) bool {
			as, ok := x.(*ast.AssignStmt)
			if !ok {
				return true
			}
			for i, l := range as.Lhs {
				if id, ok := l.(*ast.Ident); ok && id.Name == "level" {
					if levelPos == token.NoPos {
						levelPos = as.Pos()
					}
					if len(as.Lhs) == len(as.Rhs) {
						levelDefs = append(levelDefs, as.Rhs[i])
					} else {
						levelDefs = append(levelDefs, as.Rhs[0])
					}
				}
			}
			return true
		})
		hasLevelP := false
		ast.Inspect(fd.Body, func(x ast.Node) bool {
			if as, ok := x.(*ast.AssignStmt); ok {
				for _, l := range as.Lhs {
					if id, ok := l.(*ast.Ident); ok && id.Name == "levelP" {
						hasLevelP = true
					}
				}
			}
			return true
		})
		if levelPos == token.NoPos && !hasLevelP {
			return
		}
		definedAs := map[string]bool{}
		for _, d := range levelDefs {
			definedAs[exprString(d)] = true
		}
		n++
		var bad []string
		var badPos token.Pos
		ast.Inspect(fd.Body, func(x ast.Node) bool {
			call, ok := x.(*ast.CallExpr)
			if !ok || levelPos == token.NoPos {
				return true
			}
			f := calleeFunc(info, call)
			if f == nil {
				return true
			}
			fs, ok := f.Type().(*types.Signature)
			if !ok {
				return true
			}
			for i, a := range call.Args {
				if i >= fs.Params().Len() {
					break
				}
				if !strings.Contains(strings.ToLower(fs.Params().At(i).Name()), "level") {
					continue
				}
				ac, ok := unparen(a).(*ast.CallExpr)
				if !ok || len(ac.Args) != 0 {
					continue
				}
				sel, ok := unparen(ac.Fun).(*ast.SelectorExpr)
				if !ok || sel.Sel.Name != "Level" {
					continue
				}
				id, ok := unparen(sel.X).(*ast.Ident)
				if !ok {
					continue
				}
				if o := info.Uses[id]; !inputs[o] {
					// a local working copy of an operand (the operand itself or its rescaled version) is no better a
					// source for the level than the operand
					v, isVar := o.(*types.Var)
					if !isVar || v.IsField() || isOutParamName(v.Name()) || !isMetaCarrier(v.Type()) || v.Parent() == nil || v.Parent() == pk.Types.Scope() {
						continue
					}
					isParam := false
					for k := 0; k < sig.Params().Len(); k++ {
						if sig.Params().At(k) == v {
							isParam = true
						}
					}
					if isParam || (sig.Recv() != nil && sig.Recv() == v) {
						continue
					}
				}
				if definedAs[exprString(a)] || call.Pos() < levelPos {
					continue
				}
				bad = append(bad, fmt.Sprintf("%s receives %s at %s", f.Name(), exprString(a), c.Rel(call.Pos())))
				if badPos == token.NoPos {
					badPos = call.Pos()
				}
			}
			return true
		})
		// (b) the prime product is indexed with the working P-level, not with the P-level of some other object
		{
			var lpDefs []string
			var lpPos token.Pos
			ast.Inspect(fd.Body, func(x ast.Node) bool {
				as, ok := x.(*ast.AssignStmt)
				if !ok || len(as.Lhs) != len(as.Rhs) {
					return true
				}
				for i, l := range as.Lhs {
					if id, ok := l.(*ast.Ident); ok && id.Name == "levelP" {
						lpDefs = append(lpDefs, exprString(as.Rhs[i]))
						if lpPos == token.NoPos {
							lpPos = as.Pos()
						}
					}
				}
				return true
			})
			if len(lpDefs) > 0 {
				ast.Inspect(fd.Body, func(x ast.Node) bool {
					ix, ok := x.(*ast.IndexExpr)
					if !ok || ix.Pos() < lpPos {
						return true
					}
					sel, ok := unparen(ix.X).(*ast.SelectorExpr)
					if !ok || sel.Sel.Name != "ModulusAtLevel" {
						return true
					}
					call, ok := unparen(ix.Index).(*ast.CallExpr)
					if !ok || len(call.Args) != 0 {
						return true
					}
					s2, ok := unparen(call.Fun).(*ast.SelectorExpr)
					if !ok || s2.Sel.Name != "LevelP" {
						return true
					}
					txt := exprString(call)
					for _, d := range lpDefs {
						if d == txt {
							return true
						}
					}
					bad = append(bad, fmt.Sprintf("ModulusAtLevel is indexed with %s at %s although the working P-level is `levelP` (%s)", txt, c.Rel(ix.Pos()), strings.Join(lpDefs, " / ")))
					if badPos == token.NoPos {
						badPos = ix.Pos()
					}
					return true
				})
			}
		}
		props := metaProps(fkey)
		if len(bad) == 0 {
			out = append(out, withProps(okOb("LEVELUSE", "LEVELUSE:"+fkey, c.Rel(fd.Pos()), "level-taking callees receive the operation level", true), props...))
		} else {
			out = append(out, withProps(violOb("LEVELUSE", "LEVELUSE:"+fkey, c.Rel(badPos), fmt.Sprintf("%s fixes its working level(s) in local variables but %s: with operands or keys at different levels the computation is carried out for the wrong level", fkey, strings.Join(bad, "; "))), props...))
		}
	})
	c.Stats["leveluse_funcs"] = n
	return out
}

func init() {
	all := []string{"C04", "C05", "C06", "C11", "C12", "C13", "C20"}
	core.Register(&core.Rule{Name: "DEADMETA", Props: all,
		Doc: "a store to a metadata field of an element (Scale, IsNTT, IsMontgomery, LogDimensions, IsBatched) cannot reach a whole-MetaData store to the same element without the field being read in between (may-analysis over go/cfg)",
		Run: func(c *core.Ctx) []ob {
			out := scanDeadMeta(c)
			for _, o := range core.Floor("DEADMETA", nil, "metadata field stores", c.Stats["deadmeta_stores"], 60) {
				out = append(out, withProps(o, all...))
			}
			for _, o := range control(c, "DEADMETA", scanDeadMeta, "(fixEvaluator).Halve") {
				out = append(out, withProps(o, all...))
			}
			return out
		}})
	core.Register(&core.Rule{Name: "LEVELUSE", Props: all,
		Doc: "in a function that fixes its working level in a local `level`, no callee parameter that takes a level receives <input operand>.Level() instead",
		Run: func(c *core.Ctx) []ob {
			out := scanLevelUse(c)
			for _, o := range core.Floor("LEVELUSE", nil, "functions with a working level", c.Stats["leveluse_funcs"], 30) {
				out = append(out, withProps(o, all...))
			}
			for _, o := range control(c, "LEVELUSE", scanLevelUse, "(fixEvaluator).ScaleAt") {
				out = append(out, withProps(o, all...))
			}
			return out
		}})
}

// LEVELIDX — the prime selected from a levelled ring is selected with that ring's own level.
//
// `ringQ := params.RingQ().AtLevel(L)` followed by `ringQ.SubRings[E]` (or ModulusAtLevel[E]) picks the prime the
// rescaling divides by, or the modulus a scale is reduced with. Both L and E are resolved, through single-definition
// locals, to the operand levels they are computed from (`op0.Level()`, `opOut.Level()`, ...). When both resolve and E
// draws on an operand level that L does not, the index is taken from another ciphertext than the ring: the two agree
// only when the operands happen to be at the same level.
func scanLevelIdx(c *core.Ctx) []ob {
	var out []ob
	n := 0
	c.FuncDecls(func(pk *packages.Package, file *ast.File, fd *ast.FuncDecl) {
		if fd.Body == nil || fileIsTestSupport(c.Program, fd.Pos()) || inExamples(pk) {
			return
		}
		info := pk.TypesInfo
		fkey := core.FuncKey(pk, fd)
		defs := map[types.Object][]ast.Expr{}
		ast.Inspect(fd.Body, func(x ast.Node) bool {
			if as, ok := x.(*ast.AssignStmt); ok {
				for i, l := range as.Lhs {
					if id, ok := unparen(l).(*ast.Ident); ok {
						o := info.Defs[id]
						if o == nil {
							o = info.Uses[id]
						}
						if o == nil {
							continue
						}
						if len(as.Lhs) == len(as.Rhs) {
							defs[o] = append(defs[o], as.Rhs[i])
						} else {
							defs[o] = append(defs[o], nil)
						}
					}
				}
			}
			return true
		})
		// sources(e): the set of "<x>.Level()" texts e is computed from; ok=false if something does not resolve
		var sources func(e ast.Expr, depth int) (map[string]bool, bool)
		sources = func(e ast.Expr, depth int) (map[string]bool, bool) {
			res := map[string]bool{}
			ok := true
			if depth > 5 {
				return res, false
			}
			var walk func(x ast.Expr)
			walk = func(x ast.Expr) {
				switch y := unparen(x).(type) {
				case *ast.BasicLit:
				case *ast.BinaryExpr:
					walk(y.X)
					walk(y.Y)
				case *ast.CallExpr:
					if sel, isSel := unparen(y.Fun).(*ast.SelectorExpr); isSel && sel.Sel.Name == "Level" && len(y.Args) == 0 {
						res[exprString(sel.X)+".Level()"] = true
						return
					}
					if nm := calleeName(info, y); nm == "Min" || nm == "Max" {
						for _, a := range y.Args {
							walk(a)
						}
						return
					}
					ok = false
				case *ast.Ident:
					o := info.Uses[y]
					if o == nil {
						ok = false
						return
					}
					ds := defs[o]
					if len(ds) != 1 || ds[0] == nil {
						// loop counters and parameters carry no operand level
						if _, isVar := o.(*types.Var); isVar && len(ds) == 0 {
							res["param:"+y.Name] = true
							return
						}
						if len(ds) > 1 {
							// a counter (i := 0; i++) contributes nothing when all its definitions are literal-based
							return
						}
						ok = false
						return
					}
					sub, sok := sources(ds[0], depth+1)
					if !sok {
						ok = false
					}
					for k := range sub {
						res[k] = true
					}
				default:
					ok = false
				}
			}
			walk(e)
			return res, ok
		}
		ord := 0
		ast.Inspect(fd.Body, func(x ast.Node) bool {
			ix, isIx := x.(*ast.IndexExpr)
			if !isIx {
				return true
			}
			sel, isSel := unparen(ix.X).(*ast.SelectorExpr)
			if !isSel || (sel.Sel.Name != "SubRings" && sel.Sel.Name != "ModulusAtLevel") {
				return true
			}
			rid, isId := unparen(sel.X).(*ast.Ident)
			if !isId {
				return true
			}
			ds := defs[info.Uses[rid]]
			if len(ds) != 1 || ds[0] == nil {
				return true
			}
			// the ring is defined as ....AtLevel(L)
			var L ast.Expr
			ast.Inspect(ds[0], func(y ast.Node) bool {
				if call, ok := y.(*ast.CallExpr); ok && len(call.Args) >= 1 {
					if s2, ok := unparen(call.Fun).(*ast.SelectorExpr); ok && s2.Sel.Name == "AtLevel" && L == nil {
						L = call.Args[0]
					}
				}
				return true
			})
			if L == nil {
				return true
			}
			sl, okL := sources(L, 0)
			se, okE := sources(ix.Index, 0)
			ord++
			n++
			key := fmt.Sprintf("LEVELIDX:%s#%s[%s]", fkey, exprString(ix.X), exprString(ix.Index))
			props := metaProps(fkey)
			if !okL || !okE {
				out = append(out, withProps(okOb("LEVELIDX", key, c.Rel(ix.Pos()), "index or ring level not resolvable to operand levels: nothing to compare", false), props...))
				return true
			}
			var foreign []string
			for k := range se {
				if strings.HasSuffix(k, ".Level()") && !sl[k] {
					// the level of the indexed ring itself (`top := ringQ.Level()` … `ringQ.SubRings[top-i]`) is the level it
					// was cut at
					if k == rid.Name+".Level()" {
						continue
					}
					foreign = append(foreign, k)
				}
			}
			hasOperandLevel := false
			for k := range sl {
				if strings.HasSuffix(k, ".Level()") {
					hasOperandLevel = true
				}
			}
			if len(foreign) > 0 && hasOperandLevel {
				sort.Strings(foreign)
				out = append(out, withProps(violOb("LEVELIDX", key, c.Rel(ix.Pos()), fmt.Sprintf("%s indexes %s, a ring cut at level %s, with %s which is computed from %s: the selected prime is the one of another operand's level and differs whenever the operands are not at the same level", fkey, exprString(ix.X), exprString(L), exprString(ix.Index), strings.Join(foreign, ", "))), props...))
			} else {
				out = append(out, withProps(okOb("LEVELIDX", key, c.Rel(ix.Pos()), "the index is computed from the level the ring was cut at", true), props...))
			}
			return true
		})
	})
	c.Stats["levelidx_sites"] = n
	return out
}

func init() {
	all := []string{"C04", "C05", "C06", "C11", "C12", "C13", "C20"}
	core.Register(&core.Rule{Name: "LEVELIDX", Props: all,
		Doc: "an index into SubRings/ModulusAtLevel of a ring cut with AtLevel(L) is computed from the same operand level(s) as L (resolved through single-definition locals)",
		Run: func(c *core.Ctx) []ob {
			out := scanLevelIdx(c)
			for _, o := range core.Floor("LEVELIDX", nil, "level-indexed primes of a levelled ring", c.Stats["levelidx_sites"], 8) {
				out = append(out, withProps(o, all...))
			}
			for _, o := range control(c, "LEVELIDX", scanLevelIdx, "(fixEvaluator).DropScale") {
				out = append(out, withProps(o, all...))
			}
			return out
		}})
}

// METASHARE — an element that shares the MetaData object of an operand is not modified and is not an output.
//
// `tmp.MetaData = ctIn.MetaData` makes a scratch element borrow the operand's metadata by pointer: fine as long as
// the scratch element is only read. If the borrowing element is the operation's output, or if one of its metadata
// fields is assigned afterwards, the operand's metadata changes with it (its scale is multiplied, its flags flip),
// and both ciphertexts keep following each other. The value copy `*out.MetaData = *in.MetaData` is the safe form.
// metaShareExempt: function -> reason. The lender is the function's own result there.
var metaShareExempt = map[string]string{
	"circuits/ckks/bootstrapping.(SecretKeyBootstrapper).Bootstrap": "re-encrypts ct in place and returns it: giving ct the fresh plaintext's scale is the purpose",
}

func scanMetaShare(c *core.Ctx) []ob {
	var out []ob
	n := 0
	// unexported helpers that hand back an element borrowing the metadata of one of their parameters
	// (`ctTmp.MetaData = ctIn.MetaData; return ctTmp`): the borrowing is judged where the helper is called
	borrower := map[*types.Func]int{}
	c.FuncDecls(func(pk *packages.Package, file *ast.File, fd *ast.FuncDecl) {
		if fd.Body == nil || fd.Name.IsExported() || fd.Type.Results == nil || fd.Type.Results.NumFields() != 1 {
			return
		}
		info := pk.TypesInfo
		fn, _ := info.Defs[fd.Name].(*types.Func)
		if fn == nil {
			return
		}
		sig := fn.Type().(*types.Signature)
		// what is returned: the named result, or the local every return statement returns
		var ret types.Object
		if nm := fd.Type.Results.List[0].Names; len(nm) == 1 {
			ret = info.Defs[nm[0]]
		}
		ast.Inspect(fd.Body, func(x ast.Node) bool {
			if r, ok := x.(*ast.ReturnStmt); ok && len(r.Results) == 1 {
				if o := identObj(info, r.Results[0]); o != nil {
					ret = o
				}
			}
			return true
		})
		if ret == nil {
			return
		}
		ast.Inspect(fd.Body, func(x ast.Node) bool {
			as, ok := x.(*ast.AssignStmt)
			if !ok || len(as.Lhs) != len(as.Rhs) {
				return true
			}
			for i, l := range as.Lhs {
				ls, ok := unparen(l).(*ast.SelectorExpr)
				if !ok || ls.Sel.Name != "MetaData" || identObj(info, ls.X) != ret {
					continue
				}
				rs, ok := unparen(as.Rhs[i]).(*ast.SelectorExpr)
				if !ok || rs.Sel.Name != "MetaData" {
					continue
				}
				for k := 0; k < sig.Params().Len(); k++ {
					if identObj(info, rs.X) == types.Object(sig.Params().At(k)) {
						borrower[funcOrigin(fn)] = k
					}
				}
			}
			return true
		})
	})
	c.FuncDecls(func(pk *packages.Package, file *ast.File, fd *ast.FuncDecl) {
		if fd.Body == nil || fileIsTestSupport(c.Program, fd.Pos()) || inExamples(pk) {
			return
		}
		info := pk.TypesInfo
		fkey := core.FuncKey(pk, fd)
		selfFn, _ := info.Defs[fd.Name].(*types.Func)
		_, selfBorrows := borrower[funcOrigin(selfFn)]
		params := map[types.Object]bool{}
		if fd.Type.Params != nil {
			for _, f := range fd.Type.Params.List {
				for _, nm := range f.Names {
					if o := info.Defs[nm]; o != nil {
						params[o] = true
					}
				}
			}
		}
		results := map[types.Object]bool{}
		if fd.Type.Results != nil {
			for _, f := range fd.Type.Results.List {
				for _, nm := range f.Names {
					if o := info.Defs[nm]; o != nil {
						results[o] = true
					}
				}
			}
		}
		ord := 0
		ast.Inspect(fd.Body, func(x ast.Node) bool {
			as, ok := x.(*ast.AssignStmt)
			if !ok || len(as.Lhs) != len(as.Rhs) {
				return true
			}
			for i, l := range as.Lhs {
				var lsX ast.Expr
				a, b := "", ""
				if call, ok := unparen(as.Rhs[i]).(*ast.CallExpr); ok {
					// x := helper(.., arg, ..) with a borrowing helper
					if k, isB := borrower[funcOrigin(calleeFunc(info, call))]; isB && k < len(call.Args) {
						if _, isIdent := unparen(l).(*ast.Ident); isIdent {
							lsX = l
							a, b = exprString(l), exprString(call.Args[k])
						}
					}
				}
				if lsX == nil {
					ls, ok := unparen(l).(*ast.SelectorExpr)
					if !ok || ls.Sel.Name != "MetaData" {
						continue
					}
					rsel, ok := unparen(as.Rhs[i]).(*ast.SelectorExpr)
					if !ok || rsel.Sel.Name != "MetaData" {
						continue
					}
					if _, isPtr := info.TypeOf(l).(*types.Pointer); !isPtr {
						continue
					}
					lsX = ls.X
					a, b = exprString(ls.X), exprString(rsel.X)
				}
				ls := struct{ X ast.Expr }{lsX}
				if a == b {
					continue
				}
				ord++
				n++
				key := fmt.Sprintf("METASHARE:%s#%s<-%s", fkey, a, b)
				props := metaProps(fkey)
				why := ""
				if id := rootIdent(ls.X); id != nil {
					o := info.Uses[id]
					if (params[o] && isOutParamName(id.Name)) || (results[o] && !selfBorrows) {
						why = fmt.Sprintf("%s is an output of the operation", a)
					}
				}
				if why == "" {
					// a metadata field store on the borrowing element anywhere in the function
					ast.Inspect(fd.Body, func(y ast.Node) bool {
						as2, ok := y.(*ast.AssignStmt)
						if !ok || why != "" {
							return true
						}
						for _, l2 := range as2.Lhs {
							l2 = unparen(l2)
							if st, ok := l2.(*ast.StarExpr); ok {
								if s2, ok := unparen(st.X).(*ast.SelectorExpr); ok && s2.Sel.Name == "MetaData" && exprString(s2.X) == a {
									why = fmt.Sprintf("the metadata of %s is overwritten at %s", a, c.Rel(as2.Pos()))
								}
								continue
							}
							s2, ok := l2.(*ast.SelectorExpr)
							if !ok || !metaFieldNames[s2.Sel.Name] {
								continue
							}
							base := unparen(s2.X)
							if s3, ok := base.(*ast.SelectorExpr); ok && s3.Sel.Name == "MetaData" {
								base = s3.X
							}
							if exprString(base) == a && as2.Pos() > as.Pos() {
								why = fmt.Sprintf("%s.%s is assigned at %s", a, s2.Sel.Name, c.Rel(as2.Pos()))
							}
						}
						return true
					})
				}
				if ex := metaShareExempt[fkey]; ex != "" && why != "" {
					out = append(out, withProps(okOb("METASHARE", key, c.Rel(as.Pos()), "exempt: "+ex, false), props...))
				} else if why == "" {
					out = append(out, withProps(okOb("METASHARE", key, c.Rel(as.Pos()), "the borrowing element is a scratch element whose metadata is only read", true), props...))
				} else {
					out = append(out, withProps(violOb("METASHARE", key, c.Rel(as.Pos()), fmt.Sprintf("%s makes %s share the MetaData object of %s (pointer assignment) and %s: the metadata of %s changes with it", fkey, a, b, why, b)), props...))
				}
			}
			return true
		})
	})
	c.Stats["metashare_sites"] = n
	return out
}

func init() {
	all := []string{"C04", "C05", "C06", "C09", "C11", "C12", "C13", "C20"}
	core.Register(&core.Rule{Name: "METASHARE", Props: all,
		Doc: "an element that borrows an operand's MetaData by pointer (x.MetaData = y.MetaData) is neither an output of the function nor assigned a metadata field afterwards",
		Run: func(c *core.Ctx) []ob {
			out := scanMetaShare(c)
			for i := range out {
				out[i].Props = append(out[i].Props, "C09")
			}
			for _, o := range core.Floor("METASHARE", nil, "metadata pointer borrowings", c.Stats["metashare_sites"], 10) {
				out = append(out, withProps(o, all...))
			}
			for _, o := range control(c, "METASHARE", scanMetaShare, "(fixEvaluator).Borrow") {
				out = append(out, withProps(o, all...))
			}
			return out
		}})
}

// OUTLEVEL — the working level an operation computes is applied to its output.
//
// Operations compute their working level as the minimum of the levels of their operands and of the receiver
// (`level := utils.Min(ctIn.Level(), opOut.Level())`, or the level returned by InitOutputBinaryOp/UnaryOp for
// opOut.El()) and run every ring operation at that level. The output must then be cut to that level
// (`opOut.Resize(degree, level)`): otherwise it keeps its higher level while only the lower limbs were written, its
// upper limbs hold stale data, and decryption at the recorded level returns garbage. The rule demands, for every such
// level definition, a Resize call on one of the elements whose level enters the definition, with a level argument
// that mentions the defined variable.
func scanOutLevel(c *core.Ctx) []ob {
	var out []ob
	n := 0
	c.FuncDecls(func(pk *packages.Package, file *ast.File, fd *ast.FuncDecl) {
		rel := core.ShortPkg(pk.PkgPath)
		if fd.Body == nil || fileIsTestSupport(c.Program, fd.Pos()) || !(c.IsFixture || strings.HasPrefix(rel, "schemes/") || strings.HasPrefix(rel, "core/") || strings.HasPrefix(rel, "circuits/") || strings.HasPrefix(rel, "multiparty")) {
			return
		}
		info := pk.TypesInfo
		fkey := core.FuncKey(pk, fd)
		// level definitions
		type ldef struct {
			obj     types.Object
			elems   map[string]bool // textual bases of the elements whose Level() enters
			viaInit bool
			pos     token.Pos
			text    string // for an anonymous working level: the Min(...) expression itself
		}
		var defs []ldef
		levelBases := func(e ast.Expr) map[string]bool {
			res := map[string]bool{}
			ast.Inspect(e, func(x ast.Node) bool {
				if call, ok := x.(*ast.CallExpr); ok && len(call.Args) == 0 {
					if sel, ok := unparen(call.Fun).(*ast.SelectorExpr); ok && sel.Sel.Name == "Level" {
						if t := info.TypeOf(sel.X); t != nil && isMetaCarrier(t) {
							res[exprString(sel.X)] = true
						}
					}
				}
				return true
			})
			return res
		}
		ast.Inspect(fd.Body, func(x ast.Node) bool {
			as, ok := x.(*ast.AssignStmt)
			if !ok {
				return true
			}
			if len(as.Lhs) == len(as.Rhs) {
				for i, l := range as.Lhs {
					id, ok := l.(*ast.Ident)
					if !ok || !strings.HasPrefix(strings.ToLower(id.Name), "level") || strings.HasPrefix(strings.ToLower(id.Name), "levelp") {
						continue
					}
					call, ok := unparen(as.Rhs[i]).(*ast.CallExpr)
					if !ok || calleeName(info, call) != "Min" {
						continue
					}
					bs := levelBases(call)
					if len(bs) < 2 {
						continue
					}
					o := info.Defs[id]
					if o == nil {
						o = info.Uses[id]
					}
					defs = append(defs, ldef{o, bs, false, as.Pos(), ""})
				}
			} else if acc := levelAccessorOf(info, as); acc != nil {
				// `level, ringQ := eval.workingLevelAndRing(ctIn, opOut)`: the helper returns the minimum of the levels of
				// the elements it receives — the same working level, defined one call away
				call := unparen(as.Rhs[0]).(*ast.CallExpr)
				if id, ok := as.Lhs[acc.result].(*ast.Ident); ok && id.Name != "_" {
					bs := map[string]bool{}
					for _, pi := range acc.params {
						if pi < len(call.Args) {
							bs[exprString(unparen(call.Args[pi]))] = true
						}
					}
					o := info.Defs[id]
					if o == nil {
						o = info.Uses[id]
					}
					if len(bs) >= 2 && o != nil {
						defs = append(defs, ldef{o, bs, false, as.Pos(), ""})
					}
				}
			} else if len(as.Rhs) == 1 && len(as.Lhs) == 3 {
				call, ok := unparen(as.Rhs[0]).(*ast.CallExpr)
				if !ok || !strings.HasPrefix(calleeName(info, call), "InitOutput") || len(call.Args) == 0 {
					return true
				}
				id, ok := as.Lhs[1].(*ast.Ident)
				if !ok || id.Name == "_" {
					return true
				}
				o := info.Defs[id]
				if o == nil {
					o = info.Uses[id]
				}
				last := unparen(call.Args[len(call.Args)-1])
				if c2, ok := last.(*ast.CallExpr); ok {
					if sel, ok := unparen(c2.Fun).(*ast.SelectorExpr); ok && sel.Sel.Name == "El" {
						last = sel.X
					}
				}
				defs = append(defs, ldef{o, map[string]bool{exprString(last): true}, true, as.Pos(), ""})
			}
			return true
		})
		if strings.HasPrefix(fd.Name.Name, "InitOutput") {
			return
		}
		if fo, ok := info.Defs[fd.Name].(*types.Func); ok && levelAccessors(fo) != nil {
			return // it returns the working level to its caller, which is held to the rule
		}
		// anonymous working levels: Min(x.Level(), y.Level()) used directly as an argument
		{
			named := map[token.Pos]bool{}
			ast.Inspect(fd.Body, func(x ast.Node) bool {
				if as, ok := x.(*ast.AssignStmt); ok {
					for _, r := range as.Rhs {
						named[unparen(r).Pos()] = true
					}
				}
				return true
			})
			ast.Inspect(fd.Body, func(x ast.Node) bool {
				call, ok := x.(*ast.CallExpr)
				if !ok || calleeName(info, call) != "Min" {
					return true
				}
				if named[call.Pos()] {
					return false
				}
				if bs := levelBases(call); len(bs) >= 2 {
					defs = append(defs, ldef{nil, bs, false, call.Pos(), exprString(call)})
				}
				return false
			})
		}
		paramNames := map[string]bool{}
		if fd.Type.Params != nil {
			for _, f := range fd.Type.Params.List {
				for _, nm := range f.Names {
					paramNames[nm.Name] = true
				}
			}
		}
		isEncryptor := strings.Contains(core.RecvTypeName(fd), "Encryptor")
		isDecryptor := strings.Contains(core.RecvTypeName(fd), "Decryptor")
		for _, d := range defs {
			if d.obj == nil && d.text == "" {
				continue
			}
			// one of the elements must be an output of the function
			outElem := ""
			for e := range d.elems {
				root := e
				if i := strings.IndexAny(root, ".[("); i > 0 {
					root = root[:i]
				}
				if (paramNames[root] && isOutParamName(root)) || (isEncryptor && root == "ct") || (isDecryptor && root == "pt") {
					outElem = e
				}
			}
			if outElem == "" {
				continue
			}
			n++
			found := ""
			// delegation: the output is handed to another module function after the level was computed, in the
			// same block / switch case as the definition
			var scope ast.Node = fd.Body
			{
				pm := parentMapCached(fd)
				var defNode ast.Node
				ast.Inspect(fd.Body, func(x ast.Node) bool {
					if as, ok := x.(*ast.AssignStmt); ok && as.Pos() == d.pos {
						defNode = as
					}
					return defNode == nil
				})
				if defNode == nil {
					ast.Inspect(fd.Body, func(x ast.Node) bool {
						if call, ok := x.(*ast.CallExpr); ok && call.Pos() == d.pos {
							defNode = call
						}
						return defNode == nil
					})
				}
				for p := pm[defNode]; p != nil; p = pm[p] {
					if _, ok := p.(*ast.CaseClause); ok {
						scope = p
						break
					}
					if _, ok := p.(*ast.BlockStmt); ok {
						scope = p
						break
					}
				}
			}
			ast.Inspect(scope, func(x ast.Node) bool {
				call, ok := x.(*ast.CallExpr)
				if !ok || found != "" || call.Pos() < d.pos {
					return true
				}
				f := calleeFunc(info, call)
				if f == nil || f.Pkg() == nil || !strings.HasPrefix(f.Pkg().Path(), core.ModPath) || strings.HasPrefix(f.Name(), "InitOutput") {
					return true
				}
				fsig, _ := f.Type().(*types.Signature)
				asOut, asIn := false, false
				for i, a := range call.Args {
					at := exprString(unparen(a))
					if at == outElem || at == outElem+".El()" {
						if fsig != nil && i < fsig.Params().Len() && isOutParamName(fsig.Params().At(i).Name()) {
							asOut = true
						} else {
							asIn = true
						}
					}
				}
				// in-place calls (the output is also an input of the callee) keep the output's own level;
				// the callee must itself (transitively) resize what it receives there
				if asOut && !asIn {
					resizes := false
					for i, a := range call.Args {
						at := exprString(unparen(a))
						if (at == outElem || at == outElem+".El()") && outLevelResizers(c)[funcOrigin(f)][i] {
							resizes = true
						}
					}
					if resizes {
						found = "delegated to " + f.Name() + " at " + c.Rel(call.Pos())
					}
				}
				return true
			})
			ast.Inspect(fd.Body, func(x ast.Node) bool {
				call, ok := x.(*ast.CallExpr)
				if !ok || found != "" || len(call.Args) == 0 {
					return true
				}
				sel, ok := unparen(call.Fun).(*ast.SelectorExpr)
				if !ok || sel.Sel.Name != "Resize" {
					return true
				}
				base := unparen(sel.X)
				if c2, ok := base.(*ast.CallExpr); ok {
					if s2, ok := unparen(c2.Fun).(*ast.SelectorExpr); ok && s2.Sel.Name == "El" {
						base = s2.X
					}
				}
				// through Value: shareOut.Value.Resize(levelQ)
				bt := exprString(base)
				okBase := d.elems[bt]
				for e := range d.elems {
					if strings.HasPrefix(bt, e+".") {
						okBase = true
					}
				}
				// `op.ct.Resize(…)` with op the value variable of a loop over a literal table whose rows name the elements
				if !okBase {
					if bs, ok := unparen(base).(*ast.SelectorExpr); ok {
						if rv, ok := unparen(bs.X).(*ast.Ident); ok {
							ast.Inspect(fd.Body, func(y ast.Node) bool {
								rs, ok := y.(*ast.RangeStmt)
								if !ok || okBase {
									return !okBase
								}
								vid, ok := rs.Value.(*ast.Ident)
								if !ok || info.Defs[vid] != info.Uses[rv] {
									return true
								}
								cl, ok := unparen(rs.X).(*ast.CompositeLit)
								if !ok {
									return true
								}
								for _, row := range cl.Elts {
									rcl, ok := unparen(row).(*ast.CompositeLit)
									if !ok {
										continue
									}
									for _, el := range rcl.Elts {
										if kv, ok := el.(*ast.KeyValueExpr); ok {
											if k, ok := kv.Key.(*ast.Ident); ok && k.Name == bs.Sel.Name && d.elems[exprString(unparen(kv.Value))] {
												okBase = true
											}
										}
									}
								}
								return true
							})
						}
					}
				}
				if !okBase {
					return true
				}
				mentions := false
				ast.Inspect(call.Args[len(call.Args)-1], func(y ast.Node) bool {
					if id, ok := y.(*ast.Ident); ok && d.obj != nil && info.Uses[id] == d.obj {
						mentions = true
					}
					if e, ok := y.(ast.Expr); ok && d.text != "" && exprString(e) == d.text {
						mentions = true
					}
					return true
				})
				if mentions {
					found = c.Rel(call.Pos())
				}
				return true
			})
			lname := d.text
			if d.obj != nil {
				lname = d.obj.Name()
			}
			key := fmt.Sprintf("OUTLEVEL:%s#%s@%s", fkey, lname, strings.Join(sortedKeys(d.elems), ","))
			props := metaProps(fkey)
			if strings.Contains(fkey, "Encryptor") {
				props = []string{"C03"}
			}
			if strings.HasPrefix(fkey, "multiparty") {
				props = []string{"C16"}
			}
			if found != "" {
				if strings.HasPrefix(found, "delegated") {
					out = append(out, withProps(okOb("OUTLEVEL", key, c.Rel(d.pos), found, true), props...))
				} else {
					out = append(out, withProps(okOb("OUTLEVEL", key, c.Rel(d.pos), "the element is resized to the working level at "+found, true), props...))
				}
			} else {
				out = append(out, withProps(violOb("OUTLEVEL", key, c.Rel(d.pos), fmt.Sprintf("%s computes the working level %s from the levels of %s at %s but never resizes any of them to it: the output keeps its previous level while only the limbs up to %s are written", fkey, lname, strings.Join(sortedKeys(d.elems), ", "), c.Rel(d.pos), lname)), props...))
			}
		}
	})
	c.Stats["outlevel_defs"] = n
	return out
}

func init() {
	all := []string{"C03", "C04", "C05", "C06", "C11", "C12", "C13", "C16", "C20"}
	core.Register(&core.Rule{Name: "OUTLEVEL", Props: all,
		Doc: "a working level defined as the minimum of element levels (or returned by InitOutput*Op for the output) is applied by a Resize(…, level) call to one of those elements, or the output is handed (in an output position, not in place) to a callee that itself resizes what it receives there (least fixpoint over the module)",
		Run: func(c *core.Ctx) []ob {
			out := scanOutLevel(c)
			for _, o := range core.Floor("OUTLEVEL", nil, "working-level definitions", c.Stats["outlevel_defs"], 40) {
				out = append(out, withProps(o, all...))
			}
			for _, o := range control(c, "OUTLEVEL", scanOutLevel, "(fixEvaluator).AddAt") {
				out = append(out, withProps(o, all...))
			}
			return out
		}})
}

// outLevelResizers: (function, parameter index) pairs such that the function resizes the element it receives at that
// position (a Resize / Copy / whole-element assignment through the parameter) or hands it, in an output position, to a
// function that does. Least fixpoint over the module.
var outLevelResizersCache = map[*core.Program]map[*types.Func]map[int]bool{}

func outLevelResizers(c *core.Ctx) map[*types.Func]map[int]bool {
	if r, ok := outLevelResizersCache[c.Program]; ok {
		return r
	}
	res := map[*types.Func]map[int]bool{}
	type fdecl struct {
		pk  *packages.Package
		fd  *ast.FuncDecl
		fn  *types.Func
		idx map[types.Object]int
	}
	var decls []fdecl
	c.FuncDecls(func(pk *packages.Package, file *ast.File, fd *ast.FuncDecl) {
		if fd.Body == nil || fileIsTestSupport(c.Program, fd.Pos()) {
			return
		}
		fn, _ := pk.TypesInfo.Defs[fd.Name].(*types.Func)
		if fn == nil {
			return
		}
		sig := fn.Type().(*types.Signature)
		idx := map[types.Object]int{}
		for i := 0; i < sig.Params().Len(); i++ {
			idx[sig.Params().At(i)] = i
		}
		decls = append(decls, fdecl{pk, fd, funcOrigin(fn), idx})
	})
	set := func(f *types.Func, i int) bool {
		if res[f] == nil {
			res[f] = map[int]bool{}
		}
		if res[f][i] {
			return false
		}
		res[f][i] = true
		return true
	}
	paramOf := func(info *types.Info, d fdecl, e ast.Expr) (int, bool) {
		e = unparen(e)
		if c2, ok := e.(*ast.CallExpr); ok && len(c2.Args) == 0 {
			if s2, ok := unparen(c2.Fun).(*ast.SelectorExpr); ok && s2.Sel.Name == "El" {
				e = unparen(s2.X)
			}
		}
		if u, ok := e.(*ast.UnaryExpr); ok && u.Op == token.AND {
			e = unparen(u.X)
		}
		// through Value: shareOut.Value.Resize(levelQ)
		for {
			if se, ok := e.(*ast.SelectorExpr); ok && (se.Sel.Name == "Value" || se.Sel.Name == "Element") {
				e = unparen(se.X)
				continue
			}
			break
		}
		id, ok := e.(*ast.Ident)
		if !ok {
			return 0, false
		}
		i, ok := d.idx[info.Uses[id]]
		return i, ok
	}
	for iter := 0; iter < 10; iter++ {
		changed := false
		for _, d := range decls {
			info := d.pk.TypesInfo
			ast.Inspect(d.fd.Body, func(x ast.Node) bool {
				switch v := x.(type) {
				case *ast.CallExpr:
					if sel, ok := unparen(v.Fun).(*ast.SelectorExpr); ok && (sel.Sel.Name == "Resize" || sel.Sel.Name == "Copy") {
						if i, ok := paramOf(info, d, sel.X); ok {
							if set(d.fn, i) {
								changed = true
							}
						}
					}
					if f := calleeFunc(info, v); f != nil {
						fo := funcOrigin(f)
						for ai, a := range v.Args {
							if res[fo][ai] {
								if i, ok := paramOf(info, d, a); ok {
									if set(d.fn, i) {
										changed = true
									}
								}
							}
						}
					}
				case *ast.AssignStmt:
					for _, l := range v.Lhs {
						if st, ok := unparen(l).(*ast.StarExpr); ok {
							if i, ok := paramOf(info, d, st.X); ok {
								if t := info.TypeOf(st.X); t != nil && isMetaCarrier(deref(t)) {
									if set(d.fn, i) {
										changed = true
									}
								}
							}
						}
					}
				}
				return true
			})
		}
		if !changed {
			break
		}
	}
	outLevelResizersCache[c.Program] = res
	return res
}

// levelAccessor: a helper of the module that returns, as result number `result`, the minimum of the levels of the
// element parameters numbered `params`.
type levelAccessor struct {
	result int
	params []int
}

var levelAccessorCache = map[*types.Func]*levelAccessor{}
var levelAccessorSeen = map[*types.Func]bool{}

func levelAccessors(f *types.Func) *levelAccessor {
	f = funcOrigin(f)
	if levelAccessorSeen[f] {
		return levelAccessorCache[f]
	}
	levelAccessorSeen[f] = true
	fd := fnDecls[f]
	if fd == nil || fd.Body == nil || fd.Name.IsExported() || fd.Type.Results == nil {
		return nil
	}
	sig := f.Type().(*types.Signature)
	// small helpers only: a definition of the level and a return
	if len(fd.Body.List) > 4 {
		return nil
	}
	pidx := map[string]int{}
	for i := 0; i < sig.Params().Len(); i++ {
		pidx[sig.Params().At(i).Name()] = i
	}
	basesOf := func(e ast.Expr) []int {
		call, ok := unparen(e).(*ast.CallExpr)
		if !ok {
			return nil
		}
		if id, ok := unparen(call.Fun).(*ast.SelectorExpr); !ok || id.Sel.Name != "Min" {
			if id2, ok := unparen(call.Fun).(*ast.Ident); !ok || id2.Name != "min" {
				return nil
			}
		}
		var ps []int
		ast.Inspect(call, func(x ast.Node) bool {
			if c2, ok := x.(*ast.CallExpr); ok && len(c2.Args) == 0 {
				if sel, ok := unparen(c2.Fun).(*ast.SelectorExpr); ok && sel.Sel.Name == "Level" {
					if id, ok := unparen(sel.X).(*ast.Ident); ok {
						if pi, ok := pidx[id.Name]; ok {
							ps = append(ps, pi)
						}
					}
				}
			}
			return true
		})
		return ps
	}
	// the level variable: assigned Min(p.Level(), q.Level())
	var lvName string
	var ps []int
	for _, st := range fd.Body.List {
		if as, ok := st.(*ast.AssignStmt); ok && len(as.Lhs) == len(as.Rhs) {
			for i, l := range as.Lhs {
				if id, ok := l.(*ast.Ident); ok {
					if b := basesOf(as.Rhs[i]); len(b) >= 2 {
						lvName, ps = id.Name, b
					}
				}
			}
		}
	}
	res := -1
	if lvName != "" {
		// named result, or returned explicitly
		k := 0
		for _, fl := range fd.Type.Results.List {
			for _, nm := range fl.Names {
				if nm.Name == lvName {
					res = k
				}
				k++
			}
			if len(fl.Names) == 0 {
				k++
			}
		}
		if ret, ok := fd.Body.List[len(fd.Body.List)-1].(*ast.ReturnStmt); ok {
			for i, r := range ret.Results {
				if id, ok := unparen(r).(*ast.Ident); ok && id.Name == lvName {
					res = i
				}
			}
		}
	} else if ret, ok := fd.Body.List[len(fd.Body.List)-1].(*ast.ReturnStmt); ok {
		for i, r := range ret.Results {
			if b := basesOf(r); len(b) >= 2 {
				res, ps = i, b
			}
		}
	}
	if res < 0 || len(ps) < 2 {
		return nil
	}
	a := &levelAccessor{res, ps}
	levelAccessorCache[f] = a
	return a
}

// levelAccessorOf: the assignment takes its values from one call of a level accessor.
func levelAccessorOf(info *types.Info, as *ast.AssignStmt) *levelAccessor {
	if len(as.Rhs) != 1 || len(as.Lhs) < 1 {
		return nil
	}
	call, ok := unparen(as.Rhs[0]).(*ast.CallExpr)
	if !ok {
		return nil
	}
	f := calleeFunc(info, call)
	if f == nil || f.Pkg() == nil || !strings.HasPrefix(f.Pkg().Path(), core.ModPath) {
		return nil
	}
	a := levelAccessors(f)
	if a == nil || a.result >= len(as.Lhs) {
		return nil
	}
	return a
}
