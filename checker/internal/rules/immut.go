package rules

import (
	"fmt"
	"go/ast"
	"go/types"
	"regexp"
	"strings"

	"golang.org/x/tools/go/packages"

	"lvcheck/internal/core"
)

// IMMUT — operations leave their inputs intact (C09, first clause).
//
// For every function of the evaluator / encoder / encryptor / key-generator / protocol layers, the designated
// outputs are its receiver, its last pointer-like parameter and every parameter whose name ends in "Out"
// (skOut/skOutput excepted: that is the *target secret key*, an input). Every other pointer-like parameter is an
// input. No syntactic write site of the body (assignment through it, destination of a ring operation, in-place
// receiver, big-number receiver, sampler target — resolved through local views and type-switch bindings) may be
// rooted at an input, and an input may not be handed to a callee of the module in one of that callee's output
// positions. Documented in-place operations are listed in immutInPlace with their reason.

// immutInPlace: functions documented to modify a non-last operand. Key: pkg.(Type).Method or pkg.Func -> parameter -> reason.
var immutInPlace = map[string]map[string]string{
	"circuits/common/polynomial.(Evaluator).EvaluateMonomial": {"b": "doc: 'evaluates a monomial a + b*X^pow and writes the results in b'"},
	"circuits/ckks/dft.(Evaluator).CoeffsToSlots":             {"ctReal": "doc: 'returns the results on the provided ciphertexts' (ctReal and ctImag are both outputs)"},
	"core/rgsw/blindrot.(Evaluator).BlindRotateCore":          {"acc": "the accumulator of Algorithm 3 is updated in place (in/out operand)"},
	"core/rlwe.(Evaluator).DecomposeSingleNTT":                {"c2QiQ": "doc: 'returns the result on c2QiQ and c2QiP' (two outputs)"},
	"core/rlwe.(RingPackingEvaluator).Split":                  {"ctEvenNHalf": "doc: splits ctN into ctEvenNHalf and ctOddNHalf (two outputs)"},
	"schemes/bgv.(Evaluator).MatchScalesAndLevel":             {"ct0": "doc: 'updates the both input ciphertexts'"},
}

// immutInPlaceOnly: operands that stay inputs but may be written by the named operations only (any other write site
// rooted at them is reported). Key: function -> parameter -> allowed operation names; one line of reason each.
var immutInPlaceOnly = map[string]map[string][]string{
	// ctQP is the scratch QP accumulator of the gadget product: brought out of the NTT domain in place before the
	// division by P — but never the target of a copy (1fa5ef7 copied ct into it instead of the reverse)
	"core/rlwe.(Evaluator).ModDown": {"ctQP": {"INTTLazy", "INTT"}},
}

var immutRecv = regexp.MustCompile(`Evaluator|Encoder|Encryptor|Decryptor|KeyGenerator|Protocol|Thresholdizer|Combiner|DomainSwitcher|Bootstrapper`)

var immutScope = []string{"schemes/", "core/rlwe", "core/rgsw", "circuits/", "multiparty"}

func pointerLike(t types.Type) bool {
	if t == nil {
		return false
	}
	switch u := t.Underlying().(type) {
	case *types.Pointer, *types.Slice, *types.Map:
		return true
	case *types.Interface:
		return true
	case *types.Struct:
		_ = u
		return polyish(t) && hasPointers(t, 0)
	}
	return false
}

func isOutParamName(n string) bool {
	if n == "skOut" || n == "skOutput" {
		return false
	}
	return strings.HasSuffix(n, "Out") || strings.HasSuffix(n, "out") || n == "out"
}

// outputParams returns the set of output parameter indices of a signature.
func outputParams(sig *types.Signature) map[int]bool {
	out := map[int]bool{}
	last := -1
	for i := 0; i < sig.Params().Len(); i++ {
		p := sig.Params().At(i)
		if _, isFunc := p.Type().Underlying().(*types.Signature); isFunc {
			continue
		}
		if pointerLike(p.Type()) {
			last = i
		}
		if isOutParamName(p.Name()) && pointerLike(p.Type()) {
			out[i] = true
		}
	}
	if last >= 0 {
		out[last] = true
	}
	return out
}

func typeSwitchAliases(info *types.Info, fd *ast.FuncDecl, aliases map[types.Object][]ast.Expr) {
	ast.Inspect(fd.Body, func(n ast.Node) bool {
		ts, ok := n.(*ast.TypeSwitchStmt)
		if !ok {
			return true
		}
		as, ok := ts.Assign.(*ast.AssignStmt)
		if !ok || len(as.Rhs) != 1 {
			return true
		}
		ta, ok := unparen(as.Rhs[0]).(*ast.TypeAssertExpr)
		if !ok {
			return true
		}
		for _, cl := range ts.Body.List {
			o := info.Implicits[cl]
			if o == nil {
				continue
			}
			// a clause that rebinds its variable (x = new(T).Set(x)) works on a copy from then on
			rebound := false
			ast.Inspect(cl, func(m ast.Node) bool {
				if as, ok := m.(*ast.AssignStmt); ok {
					for _, l := range as.Lhs {
						if id, ok := unparen(l).(*ast.Ident); ok && info.Uses[id] == o {
							rebound = true
						}
					}
				}
				return true
			})
			if !rebound {
				aliases[o] = append(aliases[o], ta.X)
			} else {
				delete(aliases, o)
			}
		}
		return true
	})
}

type immutFn struct {
	pk *packages.Package
	fd *ast.FuncDecl
}

// identityGuarded reports whether node n sits in the then-branch of an `if` whose condition compares (==) an
// expression rooted at the input object with one rooted at an output: the write then happens only when the
// caller passed the same object as input and output, which is the permitted aliasing.
func identityGuarded(info *types.Info, pm map[ast.Node]ast.Node, n ast.Node, in types.Object, outs map[types.Object]bool, aliases map[types.Object][]ast.Expr) bool {
	for _, h := range holdsAt(pm, n) {
		for _, be := range equalitiesOf(h.cond, h.pos) {
			sideHas := func(e ast.Expr, want func(types.Object) bool) bool {
				for _, r := range rootsOf(info, e, aliases, 0) {
					if want(r.obj) {
						return true
					}
				}
				return false
			}
			isIn := func(o types.Object) bool { return o == in }
			isOut := func(o types.Object) bool { return outs[o] }
			if (sideHas(be.X, isIn) && sideHas(be.Y, isOut)) || (sideHas(be.Y, isIn) && sideHas(be.X, isOut)) {
				return true
			}
		}
	}
	return false
}

func scanImmut(c *core.Ctx) []ob {
	var out []ob
	nFn, nIn := 0, 0
	decls := map[*types.Func]immutFn{}
	c.FuncDecls(func(pk *packages.Package, file *ast.File, fd *ast.FuncDecl) {
		if o, ok := pk.TypesInfo.Defs[fd.Name].(*types.Func); ok {
			decls[o] = immutFn{pk, fd}
		}
	})
	type task struct {
		fn     *types.Func
		inputs map[int]string // parameter index -> why it is an input
		depth  int
	}
	var work []task
	done := map[string]bool{}
	// seeds: public operations of the objects the property names
	c.FuncDecls(func(pk *packages.Package, file *ast.File, fd *ast.FuncDecl) {
		rel := core.ShortPkg(pk.PkgPath)
		inScope := c.IsFixture
		for _, s := range immutScope {
			if strings.HasPrefix(rel, s) {
				inScope = true
			}
		}
		if !inScope || fileIsTestSupport(c.Program, fd.Pos()) || strings.HasPrefix(rel, "examples") {
			return
		}
		if isCtorName(fd.Name.Name) && !copyCtorNames[fd.Name.Name] {
			return
		}
		if fd.Recv == nil || !fd.Name.IsExported() || !immutRecv.MatchString(core.RecvTypeName(fd)) {
			return
		}
		obj, _ := pk.TypesInfo.Defs[fd.Name].(*types.Func)
		if obj == nil {
			return
		}
		sig := obj.Type().(*types.Signature)
		outs := outputParams(sig)
		fkey := core.FuncKey(pk, fd)
		ins := map[int]string{}
		for i := 0; i < sig.Params().Len(); i++ {
			p := sig.Params().At(i)
			if outs[i] || !pointerLike(p.Type()) || p.Name() == "" || p.Name() == "_" {
				continue
			}
			if _, isFunc := p.Type().Underlying().(*types.Signature); isFunc {
				continue
			}
			if ex := immutInPlace[fkey]; ex != nil && (ex[p.Name()] != "" || ex["*"] != "") {
				continue
			}
			if pn := namedOf(p.Type()); pn != nil {
				if !pn.Obj().Exported() || immutRecv.MatchString(pn.Obj().Name()) {
					continue
				}
			}
			ins[i] = "input operand of " + fkey
		}
		if len(ins) > 0 {
			work = append(work, task{obj, ins, 0})
		}
	})
	for len(work) > 0 {
		t := work[0]
		work = work[1:]
		d, ok := decls[funcOrigin(t.fn)]
		if !ok {
			continue
		}
		pk, fd := d.pk, d.fd
		info := pk.TypesInfo
		fkey := core.FuncKey(pk, fd)
		sig := info.Defs[fd.Name].(*types.Func).Type().(*types.Signature)
		inputs := map[types.Object]string{}
		why := map[types.Object]string{}
		for i, w := range t.inputs {
			if i < sig.Params().Len() {
				p := sig.Params().At(i)
				k := fmt.Sprintf("IMMUT:%s#%s", fkey, p.Name())
				if done[k] {
					continue
				}
				done[k] = true
				inputs[p] = p.Name()
				why[p] = w
			}
		}
		if len(inputs) == 0 {
			continue
		}
		nFn++
		// outputs of this function, for the identity-guard idiom
		outObjs := map[types.Object]bool{}
		for i := range outputParams(sig) {
			outObjs[sig.Params().At(i)] = true
		}
		for i := 0; i < sig.Params().Len(); i++ {
			if isOutParamName(sig.Params().At(i).Name()) {
				outObjs[sig.Params().At(i)] = true
			}
		}
		aliases := localAliasesMode(info, fd, false)
		typeSwitchAliases(info, fd, aliases)
		pm := parentMapCached(fd)
		type hit struct {
			pos  string
			what string
		}
		hits := map[types.Object][]hit{}
		for _, w := range collectWrites(info, fd.Body) {
			for _, r := range rootsOfWrite(info, w, aliases) {
				if _, isIn := inputs[r.obj]; !isIn {
					continue
				}
				if w.how == "assignment" && !r.deref && r.copied {
					continue
				}
				if w.how == "assignment" && !r.deref {
					if _, isPtr := r.obj.Type().Underlying().(*types.Pointer); !isPtr || r.field == "" {
						continue
					}
				}
				if identityGuarded(info, pm, w.target, r.obj, outObjs, aliases) {
					continue
				}
				if only := immutInPlaceOnly[fkey][r.obj.Name()]; only != nil {
					allowed := false
					for _, op := range only {
						if strings.HasSuffix(w.how, " "+op) || strings.HasSuffix(w.how, "."+op) || strings.Contains(w.how, " "+op+" ") || strings.HasSuffix(w.how, op) {
							allowed = true
						}
					}
					if allowed {
						continue
					}
				}
				hits[r.obj] = append(hits[r.obj], hit{c.Rel(w.pos), fmt.Sprintf("%s (%s)", exprString(w.target), w.how)})
			}
		}
		ast.Inspect(fd.Body, func(n ast.Node) bool {
			call, ok := n.(*ast.CallExpr)
			if !ok {
				return true
			}
			f := calleeFunc(info, call)
			if f == nil || f.Pkg() == nil || !strings.HasPrefix(f.Pkg().Path(), core.ModPath) {
				return true
			}
			fp := core.ShortPkg(f.Pkg().Path())
			if strings.HasPrefix(fp, "ring") || strings.HasPrefix(fp, "utils") {
				return true // the arithmetic layer is covered by the write-site table
			}
			csig, _ := f.Type().(*types.Signature)
			if csig == nil {
				return true
			}
			inherit := map[int]string{}
			for i, a := range call.Args {
				if i >= csig.Params().Len() {
					continue
				}
				cp := csig.Params().At(i)
				for _, r := range rootsOf(info, a, aliases, 0) {
					if _, isIn := inputs[r.obj]; !isIn {
						continue
					}
					if isOutParamName(cp.Name()) && pointerLike(cp.Type()) {
						if !identityGuarded(info, pm, call, r.obj, outObjs, aliases) {
							hits[r.obj] = append(hits[r.obj], hit{c.Rel(call.Pos()), fmt.Sprintf("passed as output operand %q of %s", cp.Name(), core.ObjFuncKey(f))})
						}
					} else if !f.Exported() && pointerLike(cp.Type()) && t.depth < 3 {
						// an unexported helper inherits the obligation for the parameter that receives the input
						inherit[i] = why[r.obj] + " -> " + fkey
					}
				}
			}
			if len(inherit) > 0 {
				work = append(work, task{f, inherit, t.depth + 1})
			}
			return true
		})
		for p, name := range inputs {
			nIn++
			key := fmt.Sprintf("IMMUT:%s#%s", fkey, name)
			if hs := hits[p]; len(hs) > 0 {
				o := violOb("IMMUT", key, hs[0].pos, fmt.Sprintf("%s stores through %s, which holds an %s: %s — the operation is not documented as in-place, so the caller's object changes behind its back", fkey, name, why[p], hs[0].what))
				o.Path = append(o.Path, why[p])
				for _, h := range hs {
					o.Path = append(o.Path, h.pos+" "+h.what)
				}
				out = append(out, o)
			} else {
				out = append(out, okOb("IMMUT", key, c.Rel(fd.Pos()), "no write site is rooted at this input ("+why[p]+")", true))
			}
		}
	}
	c.Stats["immut_functions"] = nFn
	c.Stats["immut_inputs"] = nIn
	return out
}

func init() {
	core.Register(&core.Rule{Name: "IMMUT", Props: []string{"C09"},
		Doc: "no syntactic write site (assignment through, ring-operation destination, in-place/big-number receiver, sampler target; resolved through local views and type-switch bindings) of an operation is rooted at one of its input parameters, and no input is passed in an output position of a module callee; outputs are the receiver, the last pointer-like parameter and parameters named *Out",
		Run: func(c *core.Ctx) []ob {
			out := scanImmut(c)
			out = append(out, core.Floor("IMMUT", nil, "input operands", c.Stats["immut_inputs"], 200)...)
			out = append(out, control(c, "IMMUT", scanImmut, "AddScaled#op0")...)
			return out
		}})
}
