// Package core holds the loader, the obligation model and the reporting
// machinery shared by every rule of lvcheck.
package core

import (
	"fmt"
	"go/ast"
	"go/parser"
	"go/token"
	"go/types"
	"os"
	"path/filepath"
	"sort"
	"strings"
	"sync"

	"golang.org/x/tools/go/callgraph"
	"golang.org/x/tools/go/callgraph/cha"
	"golang.org/x/tools/go/callgraph/vta"
	"golang.org/x/tools/go/packages"
	"golang.org/x/tools/go/ssa"
	"golang.org/x/tools/go/ssa/ssautil"
)

// ModPath is the import path prefix of the analysed module.
const ModPath = "github.com/tuneinsight/lattigo/v6"

// Status of an obligation.
type Status int

const (
	// OK means the obligation is discharged.
	OK Status = iota
	// Violation means the rule found a construct that breaks the obligation.
	Violation
	// Incomplete means the analysis could not decide (unresolved anchor, floor breach, ...). Counts as failure.
	Incomplete
	// Info is an informational record (never fails).
	Info
)

func (s Status) String() string {
	switch s {
	case OK:
		return "ok"
	case Violation:
		return "violation"
	case Incomplete:
		return "analysis-incomplete"
	default:
		return "info"
	}
}

// Obligation is one unit of work of a rule: a (rule, construct) pair and its verdict.
type Obligation struct {
	Rule   string   `json:"rule"`
	Key    string   `json:"key"` // semantic construct key, never a line number
	Props  []string `json:"-"`
	Status Status   `json:"-"`
	St     string   `json:"status"`
	Pos    string   `json:"pos,omitempty"`
	Detail string   `json:"detail,omitempty"`
	Path   []string `json:"path,omitempty"`
	// NonTrivial marks obligations that exercised the rule's non-trivial branch.
	NonTrivial bool `json:"nontrivial,omitempty"`
}

// Program is the loaded, type-checked module.
type Program struct {
	RepoDir string
	Fset    *token.FileSet
	Pkgs    []*packages.Package // module packages only (non-test), sorted by path
	ByPath  map[string]*packages.Package
	All     []*packages.Package // including dependencies

	ssaOnce sync.Once
	SSAProg *ssa.Program
	ssaPkgs []*ssa.Package

	cgOnce sync.Once
	cg     *callgraph.Graph

	fileOf map[*ast.File]*packages.Package

	Stats map[string]int

	// IsFixture marks the synthetic single-package program used for positive controls.
	IsFixture bool

	fixMu    sync.Mutex
	fixtures map[string]*Program
}

// CachedFixture builds (once) the fixture program for the given name/source.
func (p *Program) CachedFixture(name, src string) (*Program, error) {
	p.fixMu.Lock()
	defer p.fixMu.Unlock()
	if p.fixtures == nil {
		p.fixtures = map[string]*Program{}
	}
	if q, ok := p.fixtures[name]; ok {
		return q, nil
	}
	q, err := p.Fixture(name, src)
	if err != nil {
		return nil, err
	}
	p.fixtures[name] = q
	return q, nil
}

// Load parses and type-checks every package of the module at dir.
func Load(dir string) (*Program, error) {
	fset := token.NewFileSet()
	cfg := &packages.Config{
		Mode:  packages.LoadAllSyntax,
		Dir:   dir,
		Fset:  fset,
		Tests: false,
		Env: append(os.Environ(),
			"GOFLAGS=-mod=mod", "GOPROXY=off", "GOSUMDB=off", "GOWORK=off", "GOTOOLCHAIN=local", "CGO_ENABLED=0"),
	}
	pkgs, err := packages.Load(cfg, "./...")
	if err != nil {
		return nil, fmt.Errorf("packages.Load: %w", err)
	}
	p := &Program{RepoDir: dir, Fset: fset, ByPath: map[string]*packages.Package{}, fileOf: map[*ast.File]*packages.Package{}, Stats: map[string]int{}}
	var errs []string
	packages.Visit(pkgs, nil, func(pk *packages.Package) {
		p.All = append(p.All, pk)
		if strings.HasPrefix(pk.PkgPath, ModPath) {
			for _, e := range pk.Errors {
				errs = append(errs, e.Error())
			}
		}
	})
	for _, pk := range pkgs {
		if !strings.HasPrefix(pk.PkgPath, ModPath) {
			continue
		}
		if pk.Types == nil || pk.TypesInfo == nil {
			errs = append(errs, "no type information for "+pk.PkgPath)
			continue
		}
		p.Pkgs = append(p.Pkgs, pk)
		p.ByPath[pk.PkgPath] = pk
		for _, f := range pk.Syntax {
			p.fileOf[f] = pk
		}
	}
	sort.Slice(p.Pkgs, func(i, j int) bool { return p.Pkgs[i].PkgPath < p.Pkgs[j].PkgPath })
	if len(errs) > 0 {
		if len(errs) > 10 {
			errs = errs[:10]
		}
		return nil, fmt.Errorf("type/parse errors in analysed module: %s", strings.Join(errs, "; "))
	}
	if len(p.Pkgs) < 40 {
		return nil, fmt.Errorf("only %d packages of %s loaded from %s (expected >= 40)", len(p.Pkgs), ModPath, dir)
	}
	p.Stats["packages"] = len(p.Pkgs)
	nf, nfn := 0, 0
	for _, pk := range p.Pkgs {
		nf += len(pk.Syntax)
		for _, f := range pk.Syntax {
			for _, d := range f.Decls {
				if _, ok := d.(*ast.FuncDecl); ok {
					nfn++
				}
			}
		}
	}
	p.Stats["files"] = nf
	p.Stats["func_decls"] = nfn
	return p, nil
}

// Pkg returns the module package with the given path relative to the module root ("" for the root).
func (p *Program) Pkg(rel string) *packages.Package {
	if rel == "" {
		return p.ByPath[ModPath]
	}
	return p.ByPath[ModPath+"/"+rel]
}

// Rel returns the position as repo-relative file:line.
func (p *Program) Rel(pos token.Pos) string {
	if !pos.IsValid() {
		return ""
	}
	ps := p.Fset.Position(pos)
	f := ps.Filename
	if r, err := filepath.Rel(p.RepoDir, f); err == nil && !strings.HasPrefix(r, "..") {
		f = r
	}
	return fmt.Sprintf("%s:%d", f, ps.Line)
}

// RelFile returns the repo-relative file name of pos.
func (p *Program) RelFile(pos token.Pos) string {
	ps := p.Fset.Position(pos)
	f := ps.Filename
	if r, err := filepath.Rel(p.RepoDir, f); err == nil && !strings.HasPrefix(r, "..") {
		f = r
	}
	return f
}

// ShortPkg returns the package path relative to the module.
func ShortPkg(path string) string {
	if path == ModPath {
		return "lattigo"
	}
	return strings.TrimPrefix(path, ModPath+"/")
}

// SSA builds (once) the SSA form of the whole program.
func (p *Program) SSA() *ssa.Program {
	p.ssaOnce.Do(func() {
		var roots []*packages.Package
		roots = append(roots, p.Pkgs...)
		prog, pkgs := ssautil.AllPackages(roots, ssa.InstantiateGenerics)
		prog.Build()
		p.SSAProg = prog
		p.ssaPkgs = pkgs
		p.Stats["ssa_functions"] = len(ssautil.AllFunctions(prog))
	})
	return p.SSAProg
}

// SSAPkg returns the ssa package for a module-relative path.
func (p *Program) SSAPkg(rel string) *ssa.Package {
	prog := p.SSA()
	pk := p.Pkg(rel)
	if pk == nil {
		return nil
	}
	return prog.Package(pk.Types)
}

// CallGraph builds (once) the VTA call graph refined from CHA.
func (p *Program) CallGraph() *callgraph.Graph {
	p.cgOnce.Do(func() {
		prog := p.SSA()
		fns := ssautil.AllFunctions(prog)
		p.cg = vta.CallGraph(fns, cha.CallGraph(prog))
		p.Stats["callgraph_nodes"] = len(p.cg.Nodes)
	})
	return p.cg
}

// FuncDecls iterates over every function declaration with a body in the module.
func (p *Program) FuncDecls(f func(pk *packages.Package, file *ast.File, fd *ast.FuncDecl)) {
	for _, pk := range p.Pkgs {
		for _, file := range pk.Syntax {
			for _, d := range file.Decls {
				if fd, ok := d.(*ast.FuncDecl); ok && fd.Body != nil {
					f(pk, file, fd)
				}
			}
		}
	}
}

// IsTestSupportFile reports whether the file is one of the repo's non-_test fixture files.
func IsTestSupportFile(name string) bool {
	b := filepath.Base(name)
	return b == "test_params.go" || b == "test_utils.go" || b == "test_parameters.go"
}

// RecvNamed returns the named receiver type of a method declaration (nil if none) and whether it is a pointer receiver.
func RecvNamed(info *types.Info, fd *ast.FuncDecl) (*types.Named, bool) {
	if fd.Recv == nil || len(fd.Recv.List) == 0 {
		return nil, false
	}
	obj, _ := info.Defs[fd.Name].(*types.Func)
	if obj == nil {
		return nil, false
	}
	sig := obj.Type().(*types.Signature)
	if sig.Recv() == nil {
		return nil, false
	}
	t := sig.Recv().Type()
	ptr := false
	if pt, ok := t.(*types.Pointer); ok {
		t = pt.Elem()
		ptr = true
	}
	n, _ := t.(*types.Named)
	return n, ptr
}

// FuncKey returns a stable semantic name for a function declaration: pkg.(Recv).Name or pkg.Name.
func FuncKey(pk *packages.Package, fd *ast.FuncDecl) string {
	sp := ShortPkg(pk.PkgPath)
	if fd.Recv != nil && len(fd.Recv.List) > 0 {
		return fmt.Sprintf("%s.(%s).%s", sp, recvTypeName(fd.Recv.List[0].Type), fd.Name.Name)
	}
	return sp + "." + fd.Name.Name
}

func recvTypeName(e ast.Expr) string {
	switch t := e.(type) {
	case *ast.StarExpr:
		return recvTypeName(t.X)
	case *ast.Ident:
		return t.Name
	case *ast.IndexExpr:
		return recvTypeName(t.X)
	case *ast.IndexListExpr:
		return recvTypeName(t.X)
	case *ast.ParenExpr:
		return recvTypeName(t.X)
	}
	return "?"
}

// RecvTypeName exposes recvTypeName.
func RecvTypeName(fd *ast.FuncDecl) string {
	if fd.Recv == nil || len(fd.Recv.List) == 0 {
		return ""
	}
	return recvTypeName(fd.Recv.List[0].Type)
}

// ObjFuncKey returns the semantic name of a *types.Func.
func ObjFuncKey(f *types.Func) string {
	if f == nil {
		return "?"
	}
	sp := "?"
	if f.Pkg() != nil {
		sp = ShortPkg(f.Pkg().Path())
	}
	sig, _ := f.Type().(*types.Signature)
	if sig != nil && sig.Recv() != nil {
		t := sig.Recv().Type()
		if pt, ok := t.(*types.Pointer); ok {
			t = pt.Elem()
		}
		name := "?"
		switch n := t.(type) {
		case *types.Named:
			name = n.Obj().Name()
		case *types.Interface:
			name = "interface"
		}
		return fmt.Sprintf("%s.(%s).%s", sp, name, f.Name())
	}
	return sp + "." + f.Name()
}

// loadedImporter resolves imports from the packages already loaded for the analysed module.
type loadedImporter struct{ byPath map[string]*types.Package }

func (li loadedImporter) Import(path string) (*types.Package, error) {
	if p, ok := li.byPath[path]; ok {
		return p, nil
	}
	return nil, fmt.Errorf("fixture import %q not among the loaded packages", path)
}

// Fixture type-checks the given source (one file) against the loaded packages and returns a
// Program that contains only that synthetic package. It is used for positive controls: rules
// whose expected finding count on the repository is zero must still fire on a known-bad example.
func (p *Program) Fixture(name, src string) (*Program, error) {
	file, err := parser.ParseFile(p.Fset, name+".go", src, parser.ParseComments)
	if err != nil {
		return nil, err
	}
	li := loadedImporter{map[string]*types.Package{}}
	for _, pk := range p.All {
		if pk.Types != nil {
			li.byPath[pk.PkgPath] = pk.Types
		}
	}
	info := &types.Info{
		Types: map[ast.Expr]types.TypeAndValue{}, Defs: map[*ast.Ident]types.Object{}, Uses: map[*ast.Ident]types.Object{},
		Implicits: map[ast.Node]types.Object{}, Selections: map[*ast.SelectorExpr]*types.Selection{},
		Scopes: map[ast.Node]*types.Scope{}, Instances: map[*ast.Ident]types.Instance{},
	}
	conf := types.Config{Importer: li}
	path := ModPath + "/internal/" + name
	tp, err := conf.Check(path, p.Fset, []*ast.File{file}, info)
	if err != nil {
		return nil, err
	}
	pk := &packages.Package{ID: path, Name: name, PkgPath: path, Syntax: []*ast.File{file}, Types: tp, TypesInfo: info, Fset: p.Fset}
	q := &Program{RepoDir: p.RepoDir, Fset: p.Fset, Pkgs: []*packages.Package{pk}, ByPath: map[string]*packages.Package{path: pk},
		All: append([]*packages.Package{pk}, p.All...), fileOf: map[*ast.File]*packages.Package{file: pk}, Stats: map[string]int{}, IsFixture: true}
	return q, nil
}
