package core

import (
	"encoding/json"
	"fmt"
	"os"
	"path/filepath"
	"sort"
	"strings"
	"time"
)

// Rule is a static rule: it inspects the loaded program and returns obligations.
type Rule struct {
	Name  string
	Doc   string   // one-paragraph statement of the rule applied (goes to the evidence)
	Props []string // properties served
	// Thorough marks rules that only run in the thorough tier.
	Thorough bool
	// Wide marks rules that tag each obligation with the properties of the construct it is about (computed from the
	// function's package and name): they are run for every property and their obligations filtered by tag, so that an
	// obligation is never lost because the rule's static list does not name the property.
	Wide bool
	Run  func(c *Ctx) []Obligation
}

// Ctx is what a rule sees.
type Ctx struct {
	*Program
	Tier string
	Prop string
}

// Registry of all rules, filled by the rules package.
var Registry []*Rule

// Register adds a rule.
func Register(r *Rule) { Registry = append(Registry, r) }

// KnownFile is the committed known-findings file.
type KnownFile struct {
	Findings []KnownEntry `json:"findings"`
	Fixed    []KnownEntry `json:"fixed"`
}

// KnownEntry identifies one finding by property + rule + construct key.
type KnownEntry struct {
	Property string `json:"property"`
	Rule     string `json:"rule"`
	Key      string `json:"key"`
	Commit   string `json:"commit,omitempty"`
	What     string `json:"what"`
}

// LoadKnown reads the known findings file (missing file = empty).
func LoadKnown(path string) (*KnownFile, error) {
	k := &KnownFile{}
	b, err := os.ReadFile(path)
	if err != nil {
		if os.IsNotExist(err) {
			return k, nil
		}
		return nil, err
	}
	if err := json.Unmarshal(b, k); err != nil {
		return nil, err
	}
	return k, nil
}

// Floor returns an Incomplete obligation if got < min.
// Floor guards a rule against passing vacuously: it fails when the rule finds markedly fewer instances than were
// confirmed by hand on the reference tree. The threshold is two thirds of that count (a restructuring that merges a few
// copy-pasted instances into a helper is not a reason to distrust the rule; losing a third of them is).
func Floor(rule string, props []string, what string, got, min int) []Obligation {
	thr := 2 * min / 3
	if thr < 1 {
		thr = 1
	}
	if got >= thr {
		return nil
	}
	return []Obligation{{Rule: rule, Key: rule + ":floor:" + what, Props: props, Status: Incomplete,
		Detail: fmt.Sprintf("rule matched %d %s, fewer than two thirds of the %d confirmed by hand on the reference tree (%d): the rule would pass vacuously", got, what, min, thr)}}
}

// Evidence mirrors EVIDENCE.schema.json.
type Evidence struct {
	PropertyID  string                 `json:"property_id"`
	Tier        string                 `json:"tier"`
	Seed        int                    `json:"seed"`
	Level       string                 `json:"level"`
	Coverage    map[string]interface{} `json:"coverage"`
	Assumptions []string               `json:"assumptions"`
	WallS       float64                `json:"wall_s"`
	Violations  int                    `json:"violations"`
}

// RunProperty runs all rules serving prop, writes evidence and reports, prints verdict lines, returns exit code.
// PreRun hooks are run once per loaded program before any rule (program-wide tables the rules' helpers consult).
var PreRun []func(*Program)
var preRunDone = map[*Program]bool{}

// RunPreHooks runs the PreRun hooks for prog if they have not run yet.
func RunPreHooks(prog *Program) {
	if preRunDone[prog] {
		return
	}
	preRunDone[prog] = true
	for _, h := range PreRun {
		h(prog)
	}
}

func RunProperty(prog *Program, prop, tier string, seed int, verifDir string, start time.Time, verbose bool) int {
	RunPreHooks(prog)
	ctx := &Ctx{Program: prog, Tier: tier, Prop: prop}
	var rules []*Rule
	for _, r := range Registry {
		if !contains(r.Props, prop) && !r.Wide {
			continue
		}
		if r.Thorough && tier != "thorough" {
			continue
		}
		rules = append(rules, r)
	}
	if len(rules) == 0 {
		fmt.Printf("lvcheck: no rule serves property %s\n", prop)
		return 2
	}
	var all []Obligation
	perRule := map[string]map[string]int{}
	var ruleDocs []string
	for _, r := range rules {
		obs := safeRun(r, ctx)
		cnt := map[string]int{}
		for i := range obs {
			o := &obs[i]
			if len(o.Props) == 0 {
				o.Props = r.Props
			}
			if o.Rule == "" {
				o.Rule = r.Name
			}
			// an obligation tagged with a property its rule is not registered for would never be shown to that
			// property's check: surface the inconsistency instead of losing the obligation
			for _, p := range o.Props {
				if !contains(r.Props, p) && !r.Wide && !orphanReported[r.Name+"/"+p] {
					orphanReported[r.Name+"/"+p] = true
					fmt.Fprintf(os.Stderr, "lvcheck: internal: rule %s tags obligations with %s but is not registered for it (first: %s)\n", r.Name, p, o.Key)
				}
			}
			if !contains(o.Props, prop) {
				continue
			}
			o.St = o.Status.String()
			cnt[o.St]++
			all = append(all, *o)
		}
		if r.Wide && len(cnt) == 0 {
			continue
		}
		perRule[r.Name] = cnt
		ruleDocs = append(ruleDocs, r.Name+": "+r.Doc)
	}
	sort.SliceStable(all, func(i, j int) bool {
		if all[i].Rule != all[j].Rule {
			return all[i].Rule < all[j].Rule
		}
		return all[i].Key < all[j].Key
	})
	// duplicate keys are a checker bug: make them visible
	seen := map[string]int{}
	for i := range all {
		k := all[i].Rule + "|" + all[i].Key
		seen[k]++
		if seen[k] > 1 {
			all[i].Key = fmt.Sprintf("%s#dup%d", all[i].Key, seen[k])
		}
	}

	known, err := LoadKnown(filepath.Join(verifDir, "known_findings.json"))
	if err != nil {
		fmt.Printf("lvcheck: cannot read known_findings.json: %v\n", err)
		return 2
	}
	isKnown := func(o *Obligation) *KnownEntry {
		for i := range known.Findings {
			k := &known.Findings[i]
			if k.Property == prop && k.Key == o.Key && (k.Rule == "" || k.Rule == o.Rule) {
				return k
			}
		}
		return nil
	}

	repDir := filepath.Join(verifDir, "evidence", "reports")
	_ = os.MkdirAll(repDir, 0o755)
	// remove stale reports of this property
	if old, _ := filepath.Glob(filepath.Join(repDir, prop+"-*.json")); old != nil {
		for _, f := range old {
			_ = os.Remove(f)
		}
	}

	nOK, nViol, nKnown, nInfo, nNonTrivial := 0, 0, 0, 0, 0
	distinct := map[string]bool{}
	var samples []interface{}
	var violSamples []interface{}
	sampleByRule := map[string]int{}
	for i := range all {
		o := &all[i]
		switch o.Status {
		case OK:
			nOK++
			if o.NonTrivial {
				if !distinct[o.Rule+"|"+o.Key] {
					distinct[o.Rule+"|"+o.Key] = true
					nNonTrivial++
				}
			}
			if sampleByRule[o.Rule] < 3 {
				sampleByRule[o.Rule]++
				samples = append(samples, o)
			}
		case Info:
			nInfo++
		case Violation, Incomplete:
			if k := isKnown(o); k != nil && o.Status == Violation {
				nKnown++
				fmt.Printf("KNOWN-FINDING: property=%s %s %s (%s)\n", prop, o.Key, k.What, o.Pos)
				continue
			}
			nViol++
			path := filepath.Join(repDir, fmt.Sprintf("%s-%d.json", prop, nViol))
			rep := map[string]interface{}{
				"property": prop, "rule": o.Rule, "key": o.Key, "reason": o.Status.String(),
				"pos": o.Pos, "detail": o.Detail, "path": o.Path, "tier": tier,
			}
			b, _ := json.MarshalIndent(rep, "", " ")
			_ = os.WriteFile(path, b, 0o644)
			fmt.Printf("%s: [%s] %s: %s\n", o.Pos, o.Rule, o.Key, o.Detail)
			fmt.Printf("VIOLATION property=%s replay=%s\n", prop, path)
			if len(violSamples) < 10 {
				violSamples = append(violSamples, o)
			}
		}
	}
	if verbose {
		for i := range all {
			o := &all[i]
			fmt.Printf("  %-10s %-9s %s  %s  %s\n", o.Rule, o.St, o.Key, o.Pos, o.Detail)
		}
	}
	total := nOK + nViol + nKnown
	ev := Evidence{
		PropertyID: prop, Tier: tier, Seed: seed, Level: "other",
		Coverage: map[string]interface{}{
			"explanation": "Static structural obligations decided from /repo's parsed, type-checked (and, for whole-program rules, SSA-lowered) source on this run; " +
				"each obligation is a (rule, construct) pair enumerated exhaustively from the program, no lattigo code is executed. " +
				"The obligations are necessary conditions of the behavioural property (see DESIGN.md), not the behaviour itself.",
			"rule":                strings.Join(ruleDocs, " || "),
			"obligations":         total,
			"discharged":          nOK,
			"known_findings":      nKnown,
			"open":                nViol,
			"informational":       nInfo,
			"evaluations":         total,
			"distinct_nontrivial": nNonTrivial,
			"exhaustive":          true,
			"samples":             append(samples, violSamples...),
			"per_rule":            perRule,
			"program":             prog.Stats,
			"checker_cmd":         fmt.Sprintf("./bin/lvcheck -prop %s -tier %s", prop, tier),
			"trusted_base": []string{"go/parser, go/types, golang.org/x/tools v0.29.0 (go/packages, go/ssa, go/cfg, callgraph/vta)",
				"the rule tables in /verif/checker/internal/rules (frozen from the reference tree, one reason per exception)"},
		},
		Assumptions: []string{
			"no reflection or unsafe aliasing beyond the modelled (*[k]T)(unsafe.Pointer(&s[i])) windows",
			"standard library and x/crypto behave as documented",
			"build tags: default linux/amd64 build of the module, test files excluded",
		},
		WallS:      time.Since(start).Seconds(),
		Violations: nViol,
	}
	if len(samples) == 0 && len(violSamples) == 0 {
		ev.Coverage["samples"] = []interface{}{"none"}
	}
	b, _ := json.MarshalIndent(ev, "", " ")
	evPath := filepath.Join(verifDir, "evidence", prop+".json")
	if err := os.WriteFile(evPath, b, 0o644); err != nil {
		fmt.Printf("lvcheck: cannot write evidence: %v\n", err)
		return 2
	}
	var rs []string
	for _, r := range rules {
		c := perRule[r.Name]
		// a wide rule that produced nothing for this property is not part of its check
		if r.Wide && c["ok"]+c["violation"]+c["analysis-incomplete"]+c["info"] == 0 {
			continue
		}
		rs = append(rs, fmt.Sprintf("%s(ok=%d viol=%d inc=%d info=%d)", r.Name, c["ok"], c["violation"], c["analysis-incomplete"], c["info"]))
	}
	fmt.Printf("lvcheck %s tier=%s: %d obligations, %d discharged, %d known, %d open [%s] %.1fs\n", prop, tier, total, nOK, nKnown, nViol, strings.Join(rs, " "), time.Since(start).Seconds())
	if nViol > 0 {
		return 1
	}
	return 0
}

// ruleCache: obligations of a rule on a program (rules are deterministic functions of the loaded program; the same rule
// serves several properties when `-prop all` runs them on one load). Stats are replayed with the cached obligations.
type ruleCacheEntry struct {
	obs   []Obligation
	stats map[string]int
}

var ruleCache = map[*Program]map[string]ruleCacheEntry{}

var orphanReported = map[string]bool{}

func safeRun(r *Rule, ctx *Ctx) (obs []Obligation) {
	if m := ruleCache[ctx.Program]; m != nil {
		if e, ok := m[r.Name+"/"+ctx.Tier]; ok {
			for k, v := range e.stats {
				ctx.Stats[k] = v
			}
			cp := make([]Obligation, len(e.obs))
			copy(cp, e.obs)
			return cp
		}
	}
	defer func() {
		if ruleCache[ctx.Program] == nil {
			ruleCache[ctx.Program] = map[string]ruleCacheEntry{}
		}
		st := map[string]int{}
		for k, v := range ctx.Stats {
			st[k] = v
		}
		cp := make([]Obligation, len(obs))
		copy(cp, obs)
		ruleCache[ctx.Program][r.Name+"/"+ctx.Tier] = ruleCacheEntry{cp, st}
	}()
	defer func() {
		if e := recover(); e != nil {
			obs = append(obs, Obligation{Rule: r.Name, Key: r.Name + ":panic", Props: r.Props, Status: Incomplete,
				Detail: fmt.Sprintf("rule panicked: %v", e)})
		}
	}()
	return r.Run(ctx)
}

func contains(xs []string, x string) bool {
	for _, y := range xs {
		if y == x {
			return true
		}
	}
	return false
}
