// Command lvcheck decides the static obligations of one lattigo property.
//
//	lvcheck -prop C08 -tier quick|thorough [-repo /repo] [-verif /verif] [-v]
package main

import (
	"flag"
	"fmt"
	"os"
	"path/filepath"
	"sort"
	"strconv"
	"strings"
	"time"

	"lvcheck/internal/core"
	_ "lvcheck/internal/rules"
)

func main() {
	start := time.Now()
	prop := flag.String("prop", "", "property id (C01..C20)")
	tier := flag.String("tier", os.Getenv("VERIF_TIER"), "quick or thorough")
	repo := flag.String("repo", "/repo", "path of the lattigo working tree")
	verif := flag.String("verif", "", "path of /verif (default: cwd)")
	verbose := flag.Bool("v", false, "list every obligation")
	list := flag.Bool("list", false, "list rules and exit")
	flag.Parse()
	if *list {
		sort.Slice(core.Registry, func(i, j int) bool { return core.Registry[i].Name < core.Registry[j].Name })
		for _, r := range core.Registry {
			if os.Getenv("LV_LIST_JSON") != "" {
				fmt.Printf("{\"name\":%q,\"props\":%q,\"doc\":%q}\n", r.Name, strings.Join(r.Props, ","), r.Doc)
				continue
			}
			fmt.Printf("%-12s %v thorough=%v\n    %s\n", r.Name, r.Props, r.Thorough, r.Doc)
		}
		return
	}
	if *tier != "thorough" {
		*tier = "quick"
	}
	if *verif == "" {
		wd, _ := os.Getwd()
		*verif = wd
	}
	seed, _ := strconv.Atoi(os.Getenv("VERIF_SEED"))
	if *prop == "" {
		fmt.Println("lvcheck: -prop required")
		os.Exit(2)
	}
	abs, _ := filepath.Abs(*repo)
	prog, err := core.Load(abs)
	if err != nil {
		// analysis-incomplete: the check cannot vouch for anything
		repDir := filepath.Join(*verif, "evidence", "reports")
		_ = os.MkdirAll(repDir, 0o755)
		path := filepath.Join(repDir, *prop+"-load.json")
		_ = os.WriteFile(path, []byte(fmt.Sprintf("{\"property\":%q,\"reason\":\"analysis-incomplete\",\"detail\":%q}\n", *prop, err.Error())), 0o644)
		fmt.Printf("lvcheck: %v\n", err)
		fmt.Printf("VIOLATION property=%s replay=%s\n", *prop, path)
		os.Exit(1)
	}
	// several properties in one process share the loaded program (used by the seeded-change sweep)
	if strings.Contains(*prop, ",") || *prop == "all" {
		ids := strings.Split(*prop, ",")
		if *prop == "all" {
			ids = nil
			for i := 1; i <= 20; i++ {
				ids = append(ids, fmt.Sprintf("C%02d", i))
			}
		}
		rc := 0
		for _, id := range ids {
			if r := core.RunProperty(prog, id, *tier, seed, *verif, time.Now(), *verbose); r != 0 && rc == 0 {
				rc = r
			}
		}
		os.Exit(rc)
	}
	os.Exit(core.RunProperty(prog, *prop, *tier, seed, *verif, start, *verbose))
}
